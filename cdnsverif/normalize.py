"""IR normalisation applied to every function body before the rules look at it.

N1  inlining     calls of local lambdas, of non-public / internal-linkage helper functions that are not analysis
                 units of their own (UNITS), and of pure single-return const getters are replaced by the callee's body,
                 parameters bound by declarations, `this` replaced by the receiver, `return e` replaced by the
                 statement that consumed the call's value.  Only tail-restructurable bodies are inlined (no return
                 inside a loop / switch / try); everything else stays a call.
N2  propagation  a local that is initialised once with a side-effect-free expression and never written is replaced by
                 that expression at every use that no write to one of the expression's inputs can reach between the
                 declaration and the use.

Both are semantics-preserving rewrites of the analysed program (they are what an optimiser calls inlining and
forward substitution); they exist so that a rule written against the direct form of an idiom sees the same shape
when the code hoists a value into a const local or moves a few statements into a helper or a lambda.
The raw body stays available as fn['body_raw'].
"""
import copy

from . import ir
from .ir import path, unwrap, walk, callee_qn

# Non-public / internal functions of the pinned tree that the rules treat as units of their own (they are anchors of
# dedicated obligations: a rule looks *for the call* or analyses the body by itself).  Never inlined.
UNITS = {
    "CDNS::CdnsBlock::write_blocktables": "emission summary of its own (R02.2)",
    "CDNS::CdnsBlockRead::read_blocktables": "consumption unit (R08/R09 reader tables)",
    "CDNS::CdnsBlockRead::fill_generic_q_list": "index-resolution unit (R01.6)",
    "CDNS::CdnsBlockRead::fill_generic_rr_list": "index-resolution unit (R01.6)",
    "CDNS::BlockTable::record_last_key": "index maintenance unit (R11.3, R19.1)",
    "CDNS::BlockTable::rebuild_indexes": "index maintenance unit (R11.3, R19.1)",
    "CDNS::CdnsExporter::write_file_header": "emission summary of its own (R02.4)",
    "CDNS::CdnsReader::read_file_header": "consumption unit (R09.5)",
    "CDNS::CdnsDecoder::read_cbor_type": "decoder primitive (A8 typestate)",
    "CDNS::CdnsDecoder::read_int": "decoder primitive (R07.4)",
    "CDNS::CdnsDecoder::read_string": "decoder primitive (R03.3, R05.2)",
    "CDNS::CdnsDecoder::read_to_buffer": "refill primitive (A8 typestate)",
    "CDNS::CdnsEncoder::write_int": "encoder primitive (R06.1)",
    "CDNS::CdnsEncoder::flush_buffer": "single sink (R10.3)",
    "CDNS::CdnsEncoder::write_string": "encoder primitive (R06.5)",
    "CDNS::CdnsEncoder::update_buffer": "cursor primitive (R06.4)",
    "CDNS::GzipCborOutputWriter::open": "writer lifecycle unit (R14/R15/R16)",
    "CDNS::GzipCborOutputWriter::close": "writer lifecycle unit",
    "CDNS::GzipCborOutputWriter::write_gzip": "compression unit (R14.2)",
    "CDNS::XzCborOutputWriter::open": "writer lifecycle unit",
    "CDNS::XzCborOutputWriter::close": "writer lifecycle unit",
    "CDNS::XzCborOutputWriter::write_lzma": "compression unit (R14.2)",
    "CDNS::BaseCborOutputWriter::open": "writer lifecycle unit",
    "CDNS::BaseCborOutputWriter::close": "writer lifecycle unit",
    "CDNS::Writer::open": "writer lifecycle unit",
    "CDNS::Writer::close": "writer lifecycle unit",
    "get_readable_ip_address": "renderer unit (R03.6)",
    "get_readable_dname": "renderer unit (R03.2)",
    "print_help": "tool usage text",
}
# public single-return functions that are rule anchors (looked for by name) and therefore stay calls
KEEP_GETTERS = {
    "CDNS::CdnsBlock::full": "R12.1/R12.3 look for the call and analyse the body",
    "CDNS::get_map_index": "enum_ref() recognises the call",
    "CDNS::hash_value": "hash units (R11.2)",
    "CDNS::CdnsEncoder::write_bytestring": "encoder primitive",
    "CDNS::CdnsEncoder::write_textstring": "encoder primitive",
    "CDNS::StringItem::write": "serialiser unit",
    "CDNS::CdnsBlock::add_classtype": "block-table insertion API (R02.6, R04.2/3, R11.6 look for the call)",
    "CDNS::CdnsBlock::add_qr_signature": "block-table insertion API",
    "CDNS::CdnsBlock::add_question": "block-table insertion API",
    "CDNS::CdnsBlock::add_rr": "block-table insertion API",
    "CDNS::CdnsBlock::add_malformed_message_data": "block-table insertion API",
    "CDNS::CdnsBlock::add_ip_address": "block-table insertion API",
    "CDNS::CdnsBlock::add_name_rdata": "block-table insertion API",
    "CDNS::CdnsBlock::add_question_list": "block-table insertion API",
    "CDNS::CdnsBlock::add_rr_list": "block-table insertion API",
    "CDNS::CdnsExporter::add_block_parameters": "exporter API unit",
    "CDNS::BlockTable::size": "BlockTable is treated as a container type by the rules (size/begin/end/find)",
    "CDNS::BlockTable::begin": "BlockTable is treated as a container type",
    "CDNS::BlockTable::end": "BlockTable is treated as a container type",
}
# the public methods of the codec classes are the emission / consumption primitives every rule is phrased in
API_CLASSES = ("CDNS::CdnsEncoder", "CDNS::CdnsDecoder")
MAX_DEPTH = 4


class NoInline(Exception):
    pass


def helper_type(facts, cls):
    """A record declared inside a function, inside another in-repo class (a nested guard / result struct) or in an unnamed
    namespace, without bases and with at most a handful of members: a helper of the code around it."""
    r = facts.records.get(cls)
    if r is None or r.get("bases") or r.get("polymorphic") or len(r.get("fields", [])) > 6:
        return False
    if "(anonymous" in cls or ")::" in cls or "::" not in cls:
        return (r.get("file") or "").startswith(facts.repo) if facts.repo else True
    outer = cls.rsplit("::", 1)[0]
    if outer in facts.records and (facts.records[outer].get("file") or "").startswith(facts.repo or ""):
        # nested in a library class: only types that no rule names (tables of UNITS / KEEP_GETTERS go by function, not by type)
        return not any(u.startswith(cls + "::") for u in list(UNITS) + list(KEEP_GETTERS))
    return False


def strip_targs(qn):
    out = []
    depth = 0
    for ch in qn or "":
        if ch == "<":
            depth += 1
        elif ch == ">":
            depth -= 1
        elif depth == 0:
            out.append(ch)
    return "".join(out)


def is_unit(qn):
    q = strip_targs(qn)
    return q in UNITS or q in KEEP_GETTERS or q.split("::")[-1].startswith("operator") or q.split("::")[-1] == "key"


# ------------------------------------------------------------------------------------------------ purity

PURE_STD = ("std::min", "std::max", "std::operator+", "std::move", "std::forward", "std::get", "std::abs")


def is_pure(e, facts=None, depth=0):
    """No side effect and no dependence on anything but the values it reads."""
    e = unwrap(e)
    if e is None:
        return True
    if not isinstance(e, dict) or depth > 30:
        return False
    k = e.get("k")
    if "cv" in e and k not in ("Call", "MCall", "OpCall", "Construct"):
        return True
    if k in ("Lit", "Str", "This", "SizeOf"):
        return True
    if k == "Ref":
        return e.get("d") in ("param", "local", "global", "enumconst", "staticlocal")
    if k == "Member":
        return bool(e.get("field") or e.get("staticmember")) and is_pure(e.get("base"), facts, depth + 1)
    if k == "Bin":
        op = e.get("op", "")
        if op.endswith("=") and op not in ("==", "!=", "<=", ">="):
            return False
        if op == ",":
            return False
        return is_pure(e.get("lhs"), facts, depth + 1) and is_pure(e.get("rhs"), facts, depth + 1)
    if k == "Un":
        if e.get("op") == "&" and isinstance(unwrap(e.get("e")), dict) and unwrap(e["e"]).get("k") == "Ref" and unwrap(e["e"]).get("d") in ("Field", "func"):
            return True             # `&Class::member`: a constant
        if e.get("op") in ("pre++", "pre--", "post++", "post--", "&"):
            return False
        return is_pure(e.get("e"), facts, depth + 1)
    if k == "Cond":
        return all(is_pure(e.get(x), facts, depth + 1) for x in ("c", "a", "b"))
    if k == "Cast":
        if e.get("style") in ("reinterpret", "const"):
            return False
        return is_pure(e.get("e"), facts, depth + 1)
    if k == "Index":
        return is_pure(e.get("base"), facts, depth + 1) and is_pure(e.get("idx"), facts, depth + 1)
    if k in ("DefaultArg", "DefaultInit"):
        return is_pure(e.get("e"), facts, depth + 1)
    if k == "InitList":
        return all(is_pure(x, facts, depth + 1) for x in (e.get("c") or []) if isinstance(x, dict))
    if k == "Construct":
        if e.get("copymove") and len(e.get("args", [])) == 1:
            return is_pure(e["args"][0], facts, depth + 1)
        return False
    if k in ("MCall", "OpCall", "Call"):
        cal = e.get("callee") or {}
        q = cal.get("qn") or ""
        args = list(e.get("args", []))
        if not all(is_pure(a, facts, depth + 1) for a in args):
            return False
        if k == "MCall" and not is_pure(e.get("recv"), facts, depth + 1):
            return False
        if cal.get("lambda") or cal.get("ctor"):
            return False
        sig = cal.get("sig", [])
        if any(t.endswith("&") and not t.startswith("const ") and not t.endswith("&&") for t in sig):
            return False
        if any(t.endswith("*") and not t.startswith("const ") for t in sig):
            return False
        if cal.get("cls"):
            # const member function of a standard / boost value type, or a const in-repo getter
            if not cal.get("const"):
                # element access of a sequence container / smart pointer / optional through a non-const object reads
                nm = ir.callee_name(e) or ""
                cls = cal.get("cls") or ""
                seq = cls.startswith(("std::vector<", "std::array<", "std::deque<", "std::basic_string<", "std::unique_ptr<",
                                      "std::shared_ptr<", "boost::optional<"))
                if seq and nm in ("operator[]", "at", "front", "back", "begin", "end", "data", "value", "get", "operator*", "operator->"):
                    return True
                # an in-repo accessor: a single `return <pure expression>` (possibly handing out a reference)
                if cal.get("inrepo") and facts is not None and not cal.get("virtual") and depth < 6:
                    tgt = _lookup(facts, cal)
                    if tgt is not None:
                        st = ir.stmts(tgt.get("body_raw", tgt.get("body"))) if tgt.get("body_raw", tgt.get("body")) else []
                        if len(st) == 1 and st[0].get("k") == "Return" and st[0].get("e") is not None:
                            return is_pure(st[0]["e"], facts, depth + 10)
                return False
            if cal.get("inrepo"):
                return True if cal.get("ret") not in ("void",) else False
            return q.startswith("std::") or q.startswith("boost::")
        if strip_targs(q) in PURE_STD or strip_targs(q) == "CDNS::get_map_index":
            return True
        return False
    return False


def read_paths(e):
    """Maximal access paths read by a pure expression."""
    out = set()

    def rec(n):
        n = unwrap(n)
        if not isinstance(n, dict):
            return
        p = path(n)
        if p is not None and n.get("k") in ("Ref", "Member", "This"):
            out.add(p)
            return
        if n.get("k") == "MCall":
            rp = path(n.get("recv"))
            if rp is not None:
                cls = (n.get("callee") or {}).get("cls") or ""
                if cls.startswith("std::") and ir.callee_name(n) in ("size", "empty", "length"):
                    out.add(rp + ("#size",))
                elif cls.startswith(SEQ_CLASSES) and ir.callee_name(n) in ELEM_ACCESS:
                    out.add(rp + ("[]",))
                else:
                    out.add(rp)
            else:
                rec(n.get("recv"))
            for a in n.get("args", []):
                rec(a)
            return
        if n.get("k") == "OpCall" and n.get("op") == "[]" and n.get("args"):
            rp = path(n["args"][0])
            if rp is not None and ((n.get("callee") or {}).get("cls") or "").startswith(SEQ_CLASSES):
                out.add(rp + ("[]",))
                for a in n["args"][1:]:
                    rec(a)
                return
        if n.get("k") == "Index":
            bp = path(n.get("base"))
            if bp is not None:
                out.add(bp + ("[]",))
                rec(n.get("idx"))
                return
        for c in ir.children(n):
            rec(c)
    rec(e)
    return out


SEQ_CLASSES = ("std::vector<", "std::array<", "std::deque<", "std::basic_string<")
ELEM_ACCESS = ("operator[]", "at", "front", "back", "begin", "end", "data", "cbegin", "cend")


def related(p, q):
    if p and p[0] == "*":
        return not (q and q[0].startswith("l:") and len(q) == 1)      # an unknown store can hit anything but a plain local
    if q and q[0] == "*":
        return not (p and p[0].startswith("l:") and len(p) == 1)
    n = min(len(p), len(q))
    return p[:n] == q[:n]


def lvalue_root(e):
    """Access path written by a store through an lvalue that is not itself a path: an element of a container
    (c[i], c.at(i), *c.begin()) -> path(c) + ('[]',); anything else -> ('*',) (unknown target)."""
    e = unwrap(e)
    for _ in range(8):
        if not isinstance(e, dict):
            break
        p = path(e)
        if p is not None:
            return p
        k = e.get("k")
        if k == "Index":
            bp = path(e.get("base"))
            return bp + ("[]",) if bp is not None else ("*",)
        if k == "OpCall" and e.get("op") == "[]" and e.get("args"):
            bp = path(e["args"][0])
            return bp + ("[]",) if bp is not None else ("*",)
        if k == "MCall" and ir.callee_name(e) in ELEM_ACCESS:
            bp = path(e.get("recv"))
            return bp + ("[]",) if bp is not None else ("*",)
        if k == "Member":
            e = unwrap(e.get("base"))
            continue
        if k in ("Un", "Cast"):
            e = unwrap(e.get("e"))
            continue
        if k == "OpCall" and e.get("op") in ("*", "->") and e.get("args"):
            e = unwrap(e["args"][0])
            continue
        # a call that hands back a reference to its receiver / first operand (stream insertion, fluent setters)
        if k in ("MCall", "OpCall") and ((e.get("callee") or {}).get("ret") or "").endswith("&"):
            nxt = e.get("recv") if k == "MCall" else (e.get("args") or [None])[0]
            if nxt is not None:
                e = unwrap(nxt)
                continue
        break
    return ("*",)


# ------------------------------------------------------------------------------------------------ writes

def _modset(fn, facts, memo, stack):
    """Member paths (relative to this) a member function may write, transitively through calls on this."""
    key = fn["key"]
    if key in memo:
        return memo[key]
    if key in stack:
        return set()
    stack = stack | {key}
    out = set()
    body = fn.get("body_raw", fn.get("body"))
    for n in walk(body):
        for (p, _kind) in node_writes(n, facts, memo, stack):
            if p and p[0] == "this":
                out.add(p)
    memo[key] = out
    return out


def node_writes(n, facts, memo=None, stack=frozenset()):
    """Paths written by executing node n itself (not its children)."""
    k = n.get("k")
    out = []
    if k == "Bin" and n.get("op", "").endswith("=") and n["op"] not in ("==", "!=", "<=", ">="):
        p = path(n.get("lhs"))
        out.append((p if p is not None else lvalue_root(n.get("lhs")), "assign"))
    elif k == "Un" and n.get("op") in ("pre++", "pre--", "post++", "post--"):
        p = path(n.get("e"))
        out.append((p if p is not None else lvalue_root(n.get("e")), "incdec"))
    elif k == "Un" and n.get("op") == "&":
        p = path(n.get("e"))
        if p is not None:
            out.append((p, "escape"))
    elif k in ("MCall", "Call", "OpCall", "Construct"):
        cal = n.get("callee") or {}
        sig = cal.get("sig", [])
        args = list(n.get("args", []))
        recv = n.get("recv")
        if k == "OpCall" and cal.get("cls") and args:
            recv, args = args[0], args[1:]
        for a, t in zip(args, sig):
            if (t.endswith("&") and not t.startswith("const ") and not t.endswith("&&")) or \
                    (t.endswith("*") and not t.startswith("const ")):
                p = path(a)
                if p is None:
                    ua = unwrap(a)
                    if isinstance(ua, dict) and ua.get("k") == "Un" and ua.get("op") == "&":
                        p = path(ua.get("e"))
                if p is not None:
                    out.append((p, "byref"))
        if recv is not None and cal.get("cls") and not cal.get("const") and not cal.get("static") and not cal.get("ctor"):
            rp = path(recv)
            nm_ = ir.callee_name(n) or ("operator" + n.get("op", "") if k == "OpCall" else "")
            if rp is not None and (cal.get("cls") or "").startswith(SEQ_CLASSES) and nm_ in ELEM_ACCESS:
                pass          # handing out an element is not a write; a store through it is recorded at the store
            elif rp is None:
                # non-const method on something that is not a path: an element (c[i].f()) or an unknown object
                lr = lvalue_root(recv)
                tgt = _lookup(facts, cal) if (facts is not None and memo is not None and cal.get("inrepo")) else None
                if tgt is not None and tgt.get("body") is not None and not cal.get("virtual") and not _modset(tgt, facts, memo, stack):
                    pass      # the callee provably writes nothing of its object
                else:
                    out.append((lr, "method"))
            elif rp is not None:
                tgt = _lookup(facts, cal) if (facts is not None and memo is not None and cal.get("inrepo")) else None
                if tgt is not None and tgt.get("body") is not None and not cal.get("virtual"):
                    # an in-repo method writes what its body (transitively) writes of its own object
                    for p in _modset(tgt, facts, memo, stack):
                        out.append((rp + p[1:], "method-writes"))
                else:
                    out.append((rp, "method"))
    return out


# ------------------------------------------------------------------------------------------------ lookup

def _index(facts):
    idx = getattr(facts, "_norm_index", None)
    if idx is None:
        idx = {}
        for f in facts.functions.values():
            idx.setdefault((f["qn"], tuple(f.get("sig", [])), f.get("targs", "")), f)
            idx.setdefault((f["qn"], tuple(f.get("sig", []))), f)
        facts._norm_index = idx
    return idx


def _lookup(facts, cal):
    idx = _index(facts)
    f = idx.get((cal.get("qn"), tuple(cal.get("sig", [])), cal.get("targs", "")))
    if f is None:
        f = idx.get((cal.get("qn"), tuple(cal.get("sig", []))))
    return f


# ------------------------------------------------------------------------------------------------ inlining

class Inliner:
    def __init__(self, facts):
        self.facts = facts
        self.done = {}
        self.counter = 0
        self.inlined_calls = {}      # callee key -> count
        self.kept_calls = {}         # callee key -> count (calls of inlinable callees that stayed calls)
        self.log = []

    # -- policy
    def delegation(self, call, caller_key):
        """An overload handing its work to a sibling overload of the same name on the same object
        (`add_x(const Generic&) { ...; return add_x(item); }`): the sibling's body is part of what the caller does."""
        cal = call.get("callee") or {}
        caller = self.facts.functions.get(caller_key) if caller_key else None
        if not getattr(self, "_tail", False):
            # only `return sibling(...)`: an overload that does more after the call is a unit of its own
            return False
        if caller is None or not cal.get("inrepo") or cal.get("virtual"):
            return False
        if strip_targs(cal.get("qn") or "") != strip_targs(caller.get("qn") or "") or cal.get("cls") in API_CLASSES:
            return False
        if call.get("k") == "MCall" and ir.path(call.get("recv")) != ("this",):
            return False
        f = _lookup(self.facts, cal)
        return f is not None and f["key"] != caller_key

    def tool_local_operator(self, cal):
        """operator of a helper struct that a command-line tool defines for itself (src/bin/*.cpp), or any member function of a
        small helper type declared inside a class or a function (a guard, a result struct): part of the code that uses it,
        not a unit any rule is phrased over"""
        q = cal.get("qn") or ""
        if not cal.get("cls"):
            return False
        if helper_type(self.facts, cal["cls"]) and not cal.get("ctor") and not cal.get("dtor"):
            return True
        if not q.split("::")[-1].startswith("operator"):
            return False
        r = self.facts.records.get(cal["cls"])
        return r is not None and "/src/bin/" in (r.get("file") or "")

    def target_function(self, call, caller_key=None):
        cal = call.get("callee") or {}
        if self.delegation(call, caller_key):
            f = _lookup(self.facts, cal)
            if f.get("body_raw", f.get("body")) is not None:
                return f
        if cal.get("cls") in API_CLASSES and cal.get("access", 0) == 0:
            return None
        if not cal.get("inrepo") or cal.get("virtual") or cal.get("ctor") or cal.get("dtor") or cal.get("lambda"):
            return None
        if call.get("k") == "MCall" and "CDNS::CdnsEncoder &" in (cal.get("sig") or []) and cal.get("ret") == "unsigned long" \
                and unwrap(call.get("recv") or {}).get("k") != "This":
            # serialising *another* object (`item.write_x(enc, ..)`) is one item of the caller's output: the emission analysis
            # takes such a call as a structure-valued site and analyses the callee as a writer of its own
            kept = _lookup(self.facts, cal)
            if kept is not None:
                self.kept_calls[kept["key"]] = self.kept_calls.get(kept["key"], 0) + 1
            return None
        if call.get("k") not in ("Call", "MCall") and not (call.get("k") == "OpCall" and self.tool_local_operator(cal)):
            return None
        q = cal.get("qn") or ""
        if is_unit(q) and not self.tool_local_operator(cal):
            return None
        f = _lookup(self.facts, cal)
        if f is None or f.get("body_raw", f.get("body")) is None:
            return None
        helper = bool(f.get("internal")) or f.get("access", 0) in (1, 2) or self.tool_local_operator(cal)
        if not helper:
            # cheap pre-filter for getters / forwarders: declarations followed by one return
            st = ir.stmts(f.get("body_raw", f.get("body")))
            if not st or st[-1].get("k") != "Return" or st[-1].get("e") is None or any(x.get("k") != "Decl" for x in st[:-1]):
                return None
        return f

    def inlinable(self, f, nb):
        """helper (non-public / internal linkage), or a getter / forwarder: after its own locals were folded, the body
        is a single returned expression (arguments are substituted only when that keeps their evaluation count)."""
        if bool(f.get("internal")) or f.get("access", 0) in (1, 2):
            return True
        if self.tool_local_operator({"qn": f.get("qn"), "cls": f.get("cls")}):
            return True
        st = ir.stmts(nb)
        return len(st) == 1 and st[0].get("k") == "Return" and st[0].get("e") is not None

    # -- fresh ids
    def fresh(self):
        self.counter += 1
        return 100000 + self.counter

    def instantiate(self, params, body, recv):
        """Deep copy of a callee body with its own declarations renumbered, parameter references turned into
        references to fresh locals, and `this` replaced by the receiver expression."""
        body = copy.deepcopy(body)
        declared = {}
        pmap = {}
        for p in params:
            nid = self.fresh()
            pmap[p.get("id")] = nid
        for n in walk(body):
            if n.get("k") == "Decl":
                for v in n.get("vars", []):
                    if "id" in v:
                        declared[v["id"]] = self.fresh()
            elif n.get("k") == "RangeFor" and isinstance(n.get("var"), dict):
                declared[n["var"]["id"]] = self.fresh()
            elif n.get("k") == "If" and isinstance(n.get("condvar"), dict):
                declared[n["condvar"]["id"]] = self.fresh()
            elif n.get("k") == "Lambda":
                for p in n.get("params", []):
                    declared[p["id"]] = self.fresh()
            elif n.get("k") == "Try":
                for h in n.get("handlers", []):
                    if "vid" in h:
                        declared[h["vid"]] = self.fresh()
            lam = n.get("lam")
            if isinstance(lam, dict):
                for p in lam.get("params", []):
                    declared[p["id"]] = self.fresh()

        def fix(n):
            if isinstance(n, list):
                for x in n:
                    fix(x)
                return
            if not isinstance(n, dict):
                return
            k = n.get("k")
            if k == "Ref" and n.get("d") == "param" and n.get("id") in pmap:
                n["d"] = "local"
                n["id"] = pmap[n["id"]]
                n.pop("idx", None)
            elif k == "Ref" and n.get("d") in ("local", "staticlocal", "param") and n.get("id") in declared:
                n["id"] = declared[n["id"]]
            elif k == "Decl":
                for v in n.get("vars", []):
                    if v.get("id") in declared:
                        v["id"] = declared[v["id"]]
            elif k == "RangeFor" and isinstance(n.get("var"), dict) and n["var"].get("id") in declared:
                n["var"]["id"] = declared[n["var"]["id"]]
            elif k == "If" and isinstance(n.get("condvar"), dict) and n["condvar"].get("id") in declared:
                n["condvar"]["id"] = declared[n["condvar"]["id"]]
            elif k == "Lambda":
                for p in n.get("params", []):
                    if p.get("id") in declared:
                        p["id"] = declared[p["id"]]
                for c in n.get("captures", []):
                    if c.get("id") in declared:
                        c["id"] = declared[c["id"]]
                    elif c.get("id") in pmap:
                        c["id"] = pmap[c["id"]]
            elif k == "Try":
                for h in n.get("handlers", []):
                    if h.get("vid") in declared:
                        h["vid"] = declared[h["vid"]]
            elif k == "This" and recv is not None:
                r = copy.deepcopy(recv)
                n.clear()
                n.update(r)
                return
            if isinstance(n.get("lam"), dict):
                for p in n["lam"].get("params", []):
                    if p.get("id") in declared:
                        p["id"] = declared[p["id"]]
                fix(n["lam"].get("body"))
            for key, v in list(n.items()):
                if key in ("lam",):
                    continue
                if isinstance(v, (dict, list)):
                    fix(v)
        fix(body)
        return body, pmap

    # -- return restructuring
    def contains_return(self, n):
        for x in walk(n):
            if x.get("k") == "Return":
                return True
            if x.get("k") == "Lambda":
                pass
        return False

    def _contains_return_outside_lambda(self, n):
        if not isinstance(n, dict):
            return False
        if n.get("k") == "Return":
            return True
        if n.get("k") == "Lambda":
            return False
        return any(self._contains_return_outside_lambda(c) for c in ir.children(n))

    def tail(self, sts, K, void):
        """Rewrite a statement list so that every `return e` becomes K(e); raises NoInline when a return is
        not in (restructurable) tail position.  Returns (statements, falls_through)."""
        out = []
        for i, s in enumerate(sts):
            k = s.get("k")
            if k == "Return":
                out.extend(K(s.get("e")))
                return out, False
            if not self._contains_return_outside_lambda(s):
                out.append(s)
                if ir.always_leaves(s):
                    return out, False
                continue
            if k == "Block":
                # scoping is irrelevant in the IR (locals are identified by id): splice the block
                inner, ft = self.tail(s.get("s", []) + sts[i + 1:], K, void)
                out.extend(inner)
                return out, ft
            if k == "If" and not self._contains_return_outside_lambda(s.get("cond")):
                rest = sts[i + 1:]
                th = ir.stmts(s.get("then"))
                el = ir.stmts(s.get("else")) if s.get("else") is not None else []
                th_ret = self._always_returns(th)
                el_ret = self._always_returns(el) if s.get("else") is not None else False
                th_has = any(self._contains_return_outside_lambda(x) for x in th)
                el_has = any(self._contains_return_outside_lambda(x) for x in el)
                if (th_has and not th_ret) or (el_has and not el_ret):
                    # a branch that returns on some of its paths only: what follows the `if` follows each branch (a short tail is
                    # copied into both; the copies are on exclusive paths, so declarations keep their identity)
                    size = sum(1 for x in rest for y in walk(x) if ir.is_stmt_kind(y) or y.get("k") in ("Bin", "Call", "MCall", "OpCall"))
                    if size > 24 or any(y.get("k") in ("Label", "Case", "Default") for x in rest for y in walk(x)):
                        raise NoInline("return on some paths of a branch only")
                    a, fa = self.tail(th + copy.deepcopy(rest), K, void)
                    b, fb = self.tail(el + rest, K, void)
                    out.append(self._if(s, a, b))
                    return out, (fa or fb)
                if th_ret and el_ret:
                    a, _ = self.tail(th, K, void)
                    b, _ = self.tail(el, K, void)
                    out.append(self._if(s, a, b))
                    return out, False
                if th_ret:
                    a, _ = self.tail(th, K, void)
                    b, ft = self.tail(el + rest, K, void)
                    out.append(self._if(s, a, b))
                    return out, ft
                if el_ret:
                    a, ft = self.tail(th + rest, K, void)
                    b, _ = self.tail(el, K, void)
                    out.append(self._if(s, a, b))
                    return out, ft
            raise NoInline("return inside %s" % k)
        return out, True

    def _if(self, s, a, b):
        n = {"k": "If", "l": s.get("l"), "cond": s["cond"], "then": {"k": "Block", "l": s.get("l"), "s": a}}
        if b:
            n["else"] = {"k": "Block", "l": s.get("l"), "s": b}
        for extra in ("init", "condvar"):
            if extra in s:
                n[extra] = s[extra]
        return n

    def _always_returns(self, sts):
        for s in sts:
            k = s.get("k")
            if k == "Return":
                return True
            if isinstance(s, dict) and unwrap(s).get("k") == "Throw":
                return True
            if k == "Block" and self._always_returns(s.get("s", [])):
                return True
            if k == "If" and s.get("else") is not None and self._always_returns(ir.stmts(s["then"])) and \
                    self._always_returns(ir.stmts(s["else"])):
                return True
        return False

    # -- call sites
    def find_lambda(self, call, scope_decls):
        """(params, body) of the lambda a call invokes, or None."""
        cal = call.get("callee") or {}
        if call.get("k") != "OpCall" or call.get("op") != "()" or not cal.get("lambda") or not call.get("args"):
            return None
        if isinstance(call.get("lam"), dict):
            lam = call["lam"]
            return lam.get("params", []), lam.get("body"), self._closure_id(call)
        obj = unwrap(call["args"][0])
        while isinstance(obj, dict) and obj.get("k") in ("Cast", "Construct"):
            if obj.get("k") == "Construct" and not obj.get("copymove"):
                break
            obj = unwrap(obj.get("e") if obj.get("k") == "Cast" else obj["args"][0])
        if isinstance(obj, dict) and obj.get("k") == "Lambda":
            return obj.get("params", []), obj.get("body"), None
        cid = self._closure_id(call)
        if cid is not None and cid in scope_decls:
            lam = scope_decls[cid]
            return lam.get("params", []), lam.get("body"), cid
        return None

    def _closure_id(self, call):
        obj = unwrap(call["args"][0]) if call.get("args") else None
        while isinstance(obj, dict) and obj.get("k") == "Cast":
            obj = unwrap(obj.get("e"))
        if isinstance(obj, dict) and obj.get("k") == "Ref" and obj.get("d") == "local":
            return obj.get("id")
        return None

    def normalised_body(self, f, stack):
        key = f["key"]
        if key in self.done:
            return self.done[key]
        if key in stack or len(stack) >= 40:
            # only a call cycle stops the expansion (the result of a caller must not depend on how deep in some other
            # function's expansion it happened to be computed first: bodies are cached)
            return None
        body = copy.deepcopy(f.get("body_raw", f.get("body")))
        body = self.expand_body(body, stack + (key,), f)
        # hoisted locals of a small helper are folded into its result first, so that
        # `const auto used = ..; return limit - used;` is a single returned expression for its callers
        try:
            if not hasattr(self, "memo"):
                self.memo = {}
            substitute_named_constants(body, self.facts)
            propagate(body, self.facts, self.memo)
            project_aggregates(body, self.facts)
            fold_constants(body, self.facts.enums)
        except RecursionError:
            pass
        self.done[key] = body
        return body

    def expand_body(self, body, stack, fn):
        if body is None:
            return None
        saved = (getattr(self, "_lambdas", {}), getattr(self, "_lambda_calls", {}))
        try:
            return self._expand_body(body, stack, fn)
        finally:
            self._lambdas, self._lambda_calls = saved

    def _expand_body(self, body, stack, fn):
        lambdas = {}
        for n in walk(body):
            if n.get("k") == "Decl":
                for v in n.get("vars", []):
                    init = unwrap(v.get("init")) if v.get("init") is not None else None
                    while isinstance(init, dict) and init.get("k") == "Construct" and init.get("copymove") and init.get("args"):
                        init = unwrap(init["args"][0])
                    if isinstance(init, dict) and init.get("k") == "Lambda":
                        lambdas[v["id"]] = init
        self._lambdas = lambdas
        self._lambda_calls = {}
        out = self.tx_block(ir.stmts(body), stack, fn)
        new = {"k": "Block", "l": body.get("l"), "s": out}
        # lambdas all of whose uses were inlined calls no longer need their declaration
        uses = {}
        for n in walk(new):
            if n.get("k") == "Ref" and n.get("d") == "local" and n.get("id") in lambdas:
                uses[n["id"]] = uses.get(n["id"], 0) + 1
        dead = set(i for i in lambdas if uses.get(i, 0) == 0 and self._lambda_calls.get(i, 0) > 0)
        if dead:
            self._drop_decls(new, dead)
        return new

    def _drop_decls(self, n, dead):
        if isinstance(n, dict):
            for key, v in list(n.items()):
                if key == "s" and isinstance(v, list):
                    keep = []
                    for s in v:
                        if isinstance(s, dict) and s.get("k") == "Decl":
                            s["vars"] = [x for x in s.get("vars", []) if x.get("id") not in dead]
                            if not s["vars"]:
                                continue
                        keep.append(s)
                    n["s"] = keep
                    for s in keep:
                        self._drop_decls(s, dead)
                elif isinstance(v, (dict, list)):
                    self._drop_decls(v, dead)
        elif isinstance(n, list):
            for x in n:
                self._drop_decls(x, dead)

    def tx_block(self, sts, stack, fn):
        out = []
        for i, s in enumerate(sts):
            g = self.scope_guard(s)
            if g is not None:
                rest = self.guarded_rest(list(sts[i + 1:]), g)
                if rest is not None:
                    self.guards_desugared = getattr(self, "guards_desugared", 0) + 1
                    if g.get("keep_decl"):
                        out.extend(self.tx_stmt(s, stack, fn))      # the object's members are read by its destructor's body
                    out.extend(self.tx_block(rest, stack, fn))
                    return out
            out.extend(self.tx_stmt(s, stack, fn))
        return out

    # ---- N7 scope guards
    def scope_guard(self, s):
        """`Guard g(lambda);` where ~Guard() does nothing but call the stored callable: (params, body) of the lambda, else None.
        The lambda's body is what runs when the enclosing block is left."""
        if not isinstance(s, dict) or s.get("k") != "Decl":
            return None
        named = [v_ for v_ in s.get("vars", []) if v_.get("n") and "id" in v_]
        if len(named) == 1 and len(s.get("vars", [])) > 1:
            # `struct G {..} g{..};` declares the type and the variable in one statement
            s = dict(s)
            s["vars"] = named
        if len(s.get("vars", [])) != 1:
            return None
        lg = self.lambda_guard(s)
        return lg if lg is not None else self.struct_guard(s)

    def lambda_guard(self, s):
        init = s["vars"][0].get("init")
        init = unwrap(init) if init is not None else None
        if not (isinstance(init, dict) and init.get("k") == "Construct" and not init.get("copymove") and len(init.get("args", [])) == 1):
            return None
        cal = init.get("callee") or {}
        cls = cal.get("cls")
        if not cls or not cal.get("inrepo"):
            return None
        dtors = [f for f in self.facts.functions.values() if f.get("cls") == cls and f.get("dtor") and f.get("body") is not None]
        ctors = [f for f in self.facts.functions.values() if f.get("cls") == cls and f.get("ctor") and f.get("body") is not None]
        if len(dtors) != 1 or not ctors:
            return None
        db = ir.stmts(dtors[0].get("body_raw", dtors[0]["body"]))
        if len(db) != 1:
            return None
        c = unwrap(db[0])
        if not (isinstance(c, dict) and c.get("k") == "OpCall" and c.get("op") == "()" and len(c.get("args", [])) == 1 and
                (path(c["args"][0]) or ())[:1] == ("this",) and len(path(c["args"][0])) == 2):
            return None
        if any(ir.stmts(f.get("body_raw", f["body"])) for f in ctors):
            return None                     # a constructor that does more than store the callable
        a = unwrap(init["args"][0])
        while isinstance(a, dict) and a.get("k") in ("Cast", "Construct") and (a.get("k") == "Cast" or a.get("copymove")):
            a = unwrap(a.get("e") if a.get("k") == "Cast" else a["args"][0])
        lam = None
        if isinstance(a, dict) and a.get("k") == "Lambda":
            lam = a
        elif isinstance(a, dict) and a.get("k") == "Ref" and a.get("d") == "local" and a.get("id") in getattr(self, "_lambdas", {}):
            lam = self._lambdas[a["id"]]
            self._lambda_calls[a["id"]] = self._lambda_calls.get(a["id"], 0) + 1
        if lam is None or lam.get("params") or lam.get("body") is None:
            return None
        return lam

    def struct_guard(self, s):
        """A local object of a class defined inside a function (or in an unnamed namespace) that has a destructor with a body and
        no constructor body: `struct G { X* p; ~G() { .. } } g{..};`.  Its destructor body, with `this` standing for the local,
        is the guard's action."""
        v = s["vars"][0]
        t = (v.get("t") or "").replace("const ", "")
        r = self.facts.records.get(t)
        if r is None or v.get("ref") or r.get("bases"):
            return None
        dtors = [f for f in self.facts.functions.values() if f.get("cls") == t and f.get("dtor") and f.get("body") is not None]
        if len(dtors) > 1:
            # a type local to a function template: one destructor per instantiation, all with the same source
            if len(set((f.get("file"), f.get("line")) for f in dtors)) != 1:
                return None
            dtors = dtors[:1]
        if len(dtors) != 1 or not ir.stmts(dtors[0].get("body_raw", dtors[0]["body"])):
            return None
        d = dtors[0]
        # only helper types that live inside a function / a class or are file-local: a library class with a destructor is not
        # a "guard"
        if not (d.get("internal") or ")::" in (d.get("qn") or "") or "(anonymous" in (d.get("qn") or "") or helper_type(self.facts, t)):
            return None
        ctors = [f for f in self.facts.functions.values() if f.get("cls") == t and f.get("ctor") and f.get("body") is not None]
        if any(ir.stmts(f.get("body_raw", f["body"])) for f in ctors):
            return None
        recv = {"k": "Ref", "d": "local", "id": v.get("id"), "n": v.get("n"), "t": v.get("t"), "l": v.get("l")}
        return {"k": "Lambda", "params": [], "body": d.get("body_raw", d["body"]), "recv": recv, "keep_decl": True}

    def guarded_rest(self, rest, lam):
        try:
            return self._guarded_rest(rest, lam)
        except NoInline:
            return None

    def _guarded_rest(self, rest, lam):
        """The statements after the guard's declaration with the guard's action made explicit: at the end of the block and
        in front of every return inside it.  (What the guard does when an exception leaves the block is not represented.)
        None when the block is left in a way this rewriting does not cover."""
        def cleanup():
            body_i, _ = self.instantiate([], lam["body"], lam.get("recv"))
            out = ir.stmts(body_i)
            if any(x.get("k") == "Return" for y in out for x in walk(y)):
                # an early `return;` of the destructor ends the action, not the function the guard lives in
                out, _ft = self.tail(out, lambda e: [], True)
            for x in out:
                if isinstance(x, dict):
                    # runs inside a destructor: what it throws does not reach a handler around the guarded block
                    x["guard_action"] = True
            return out
        for x in rest:
            for n in walk(x):
                if n.get("k") in ("Break", "Continue"):
                    return None
                if n.get("k") == "Return" and n.get("e") is not None and not is_pure(n["e"], self.facts):
                    return None

        def ins(n):
            if isinstance(n, list):
                out = []
                for y in n:
                    if isinstance(y, dict) and y.get("k") == "Return":
                        out.extend(cleanup())
                        out.append(y)
                    else:
                        out.append(ins(y))
                return out
            if not isinstance(n, dict) or n.get("k") == "Lambda":
                return n
            m = {}
            for key, v in n.items():
                if key in ("then", "else", "body", "sub") and isinstance(v, dict) and v.get("k") == "Return":
                    m[key] = {"k": "Block", "l": v.get("l"), "s": cleanup() + [v]}
                elif isinstance(v, (dict, list)):
                    m[key] = ins(v)
                else:
                    m[key] = v
            return m
        new = ins(rest)
        final = []
        if not (new and ir.always_leaves({"k": "Block", "s": new})):
            final = cleanup()
        # the guard also acts when an exception leaves the block: that is a handler that runs the action and throws on
        may_throw = any(x.get("k") in ("Call", "MCall", "OpCall", "Construct", "Throw", "New") for y in rest for x in walk(y))
        if may_throw:
            line = (rest[0] or {}).get("l") if rest and isinstance(rest[0], dict) else None
            handler = {"t": "...", "l": line, "synthetic": True,
                       "body": {"k": "Block", "l": line, "s": cleanup() + [{"k": "Throw", "l": line, "rethrow": True}]}}
            # a final `return <local or constant>` leaves the try block first (nothing can throw between the two)
            after = []
            if new and isinstance(new[-1], dict) and new[-1].get("k") == "Return" and \
                    sum(1 for y in new for x in walk(y) if x.get("k") == "Return") == 1:
                e_ = new[-1].get("e")
                u_ = ir.unwrap_all_casts(e_) if e_ is not None else None
                if e_ is None or (isinstance(u_, dict) and ((u_.get("k") == "Ref" and u_.get("d") == "local") or ir.const_value(u_) is not None)):
                    after = [new[-1]]
                    new = new[:-1]
            new = [{"k": "Try", "l": line, "synthetic": True, "body": {"k": "Block", "l": line, "s": new}, "handlers": [handler]}] + after
        return new + final

    def _wrap(self, s, sts):
        if len(sts) == 1 and sts[0].get("k") == "Block":
            return sts[0]
        return {"k": "Block", "l": (s or {}).get("l") if isinstance(s, dict) else None, "s": sts}

    def tx_stmt(self, s, stack, fn):
        if not isinstance(s, dict):
            return [s]
        k = s.get("k")
        if k == "Block":
            return [{"k": "Block", "l": s.get("l"), "s": self.tx_block(s.get("s", []), stack, fn)}]
        if k == "If":
            n = dict(s)
            n["cond"] = self.tx_expr(s["cond"], stack, fn)
            n["then"] = self._wrap(s.get("then"), self.tx_stmt(s["then"], stack, fn)) if s.get("then") is not None else None
            if s.get("else") is not None:
                n["else"] = self._wrap(s.get("else"), self.tx_stmt(s["else"], stack, fn))
            r = self._if_site(n, stack, fn)
            if r is None:
                r = self._if_effect_in_condition(n, stack, fn)
            return r if r is not None else [n]
        if k in ("While", "Do", "For", "RangeFor"):
            n = dict(s)
            for key in ("cond", "inc", "range"):
                if s.get(key) is not None:
                    n[key] = self.tx_expr(s[key], stack, fn)
            if s.get("init") is not None:
                r = self.tx_stmt(s["init"], stack, fn)
                n["init"] = r[0] if len(r) == 1 else s["init"]
            if s.get("body") is not None:
                n["body"] = self._wrap(s["body"], self.tx_stmt(s["body"], stack, fn))
            return [n]
        if k == "Switch":
            n = dict(s)
            n["cond"] = self.tx_expr(s["cond"], stack, fn)
            n["body"] = self._wrap(s["body"], self.tx_stmt(s["body"], stack, fn)) if s.get("body") is not None else None
            return [n]
        if k in ("Case", "Default"):
            n = dict(s)
            if s.get("sub") is not None:
                n["sub"] = self._wrap(s["sub"], self.tx_stmt(s["sub"], stack, fn))
                if len(n["sub"].get("s", [])) == 1 and s["sub"].get("k") != "Block":
                    n["sub"] = n["sub"]["s"][0]
            return [n]
        if k == "Try":
            n = dict(s)
            n["body"] = self._wrap(s["body"], self.tx_stmt(s["body"], stack, fn))
            hs = []
            for h in s.get("handlers", []):
                h2 = dict(h)
                h2["body"] = self._wrap(h["body"], self.tx_stmt(h["body"], stack, fn))
                hs.append(h2)
            n["handlers"] = hs
            return [n]
        if k in ("Break", "Continue", "Null", "Opaque", "OtherStmt"):
            return [s]
        # leaf statements: Decl, Return, expression statements
        return self.tx_leaf(s, stack, fn)

    # expression-level: single-return callees anywhere; lambda bodies recursively
    def tx_expr(self, e, stack, fn):
        if not isinstance(e, dict):
            return e
        e = copy.copy(e)
        for key in ("lhs", "rhs", "e", "recv", "base", "idx", "a", "b", "c", "cond", "fn", "size", "val"):
            if isinstance(e.get(key), dict):
                e[key] = self.tx_expr(e[key], stack, fn)
        if isinstance(e.get("args"), list):
            e["args"] = [self.tx_expr(a, stack, fn) for a in e["args"]]
        if e.get("k") == "Lambda" and e.get("body") is not None:
            e["body"] = {"k": "Block", "l": e["body"].get("l"), "s": self.tx_block(ir.stmts(e["body"]), stack, fn)}
        if isinstance(e.get("lam"), dict):
            pass
        r = self.try_expr_inline(e, stack, fn)
        return r if r is not None else e

    def callee_parts(self, call, stack):
        """(params, body, recv, name, is_lambda, closure id) of an inlinable call, else None."""
        lam = self.find_lambda(call, self._lambdas)
        if lam is not None:
            params, body, cid = lam
            if body is None:
                return None
            args = call["args"][1:]
            return params, body, None, "lambda", True, cid, args
        deleg = self.delegation(call, stack[-1] if stack else None)
        f = self.target_function(call, stack[-1] if stack else None)
        if f is None:
            return None
        wk = getattr(self.facts, "worker_wrappers", {}).get(f["key"])
        if wk is not None and (not stack or stack[-1] != wk["wrapper"]):
            # a worker that a public function merely projects (`return worker(args).bytes;`) is that public function's body:
            # it is expanded there, and stays a call everywhere else (project_worker_calls turns it into a call of the wrapper)
            return None
        nb = self.normalised_body(f, stack)
        if nb is None or not (self.inlinable(f, nb) or deleg):
            return None
        recv = call.get("recv") if call.get("k") == "MCall" else None
        args_ = call.get("args", [])
        if call.get("k") == "OpCall" and f.get("cls") and args_:
            recv, args_ = args_[0], args_[1:]          # member operator: the left operand is the object
        return f["params"], nb, recv, f["qn"], False, f["key"], args_

    def bind_function_arguments(self, body_i, params, args, pmap):
        """A parameter that receives the name of a function (`read_table(dec, table, read_table_string)`): calls through
        the parameter inside the expanded body are calls of that function."""
        fmap = {}
        for p_, a_ in zip(params, args):
            u_ = unwrap(a_)
            while isinstance(u_, dict) and u_.get("k") in ("Cast", "Un") and (u_.get("k") == "Cast" or u_.get("op") == "&"):
                u_ = unwrap(u_.get("e"))
            if isinstance(u_, dict) and u_.get("k") == "Ref" and u_.get("d") == "func" and isinstance(u_.get("callee"), dict):
                fmap[pmap[p_.get("id")]] = u_["callee"]
        # pointers to data members: `this->*table`, `item.*field` with the parameter bound to `&Class::member`
        dmap = {}
        for p_, a_ in zip(params, args):
            u_ = unwrap(a_)
            while isinstance(u_, dict) and u_.get("k") == "Cast":
                u_ = unwrap(u_.get("e"))
            if isinstance(u_, dict) and u_.get("k") == "Un" and u_.get("op") == "&":
                r_ = unwrap(u_.get("e"))
                if isinstance(r_, dict) and r_.get("k") == "Ref" and r_.get("d") == "Field" and r_.get("qn"):
                    dmap[pmap[p_.get("id")]] = r_
        hit = False
        if dmap:
            for n in walk(body_i):
                if n.get("k") == "Bin" and n.get("op") in (".*", "->*"):
                    r_ = unwrap(n.get("rhs"))
                    while isinstance(r_, dict) and r_.get("k") == "Cast":
                        r_ = unwrap(r_.get("e"))
                    if isinstance(r_, dict) and r_.get("k") == "Ref" and r_.get("id") in dmap:
                        fld = dmap[r_["id"]]
                        base = n.get("lhs")
                        arrow = n["op"] == "->*"
                        t_ = n.get("t")
                        l_ = n.get("l")
                        n.clear()
                        n.update({"k": "Member", "field": True, "n": fld["n"], "cls": fld["qn"].rsplit("::", 1)[0], "base": base, "t": t_, "l": l_})
                        if arrow:
                            n["arrow"] = True
                        hit = True
        if not fmap:
            return hit
        for n in walk(body_i):
            if n.get("k") in ("Call", "MCall") and isinstance(n.get("fn"), dict) and not n.get("callee"):
                f_ = unwrap(n["fn"])
                while isinstance(f_, dict) and f_.get("k") in ("Cast", "Un") and (f_.get("k") == "Cast" or f_.get("op") == "*"):
                    f_ = unwrap(f_.get("e"))
                if isinstance(f_, dict) and f_.get("k") == "Ref" and f_.get("id") in fmap:
                    n["callee"] = dict(fmap[f_["id"]])
                    del n["fn"]
                    hit = True
        return hit

    def bind(self, params, args, pmap, line):
        decls = []
        for p, a in zip(params, args):
            t = p.get("t", "")
            v = {"n": p.get("n") or "arg", "id": pmap[p.get("id")], "t": t, "tw": p.get("tw", t), "l": line, "init": a,
                 "inl": True}
            if t.endswith("&"):
                v["ref"] = True
            if t.startswith("const "):
                v["const"] = True
            decls.append({"k": "Decl", "l": line, "vars": [v], "inl": True})
        return decls

    def try_expr_inline(self, e, stack, fn):
        if e.get("k") not in ("Call", "MCall", "OpCall"):
            return None
        parts = self.callee_parts(e, stack)
        if parts is None:
            return None
        params, body, recv, name, is_lam, cid, args = parts
        st = ir.stmts(body)
        if len(st) != 1 or st[0].get("k") != "Return" or st[0].get("e") is None:
            return None
        if len(args) < len(params):
            # default arguments are materialised by the extractor as DefaultArg nodes; a shorter list is not understood
            return None
        # arguments are substituted: each must be pure (or the parameter used at most once)
        if recv is not None and not is_pure(recv, self.facts) and unwrap(recv).get("k") != "This":
            return None
        body_i, pmap = self.instantiate(params, st[0], recv)
        expr = body_i["e"]
        use = {}
        for n in walk(expr):
            if n.get("k") == "Ref" and n.get("d") == "local":
                use[n.get("id")] = use.get(n.get("id"), 0) + 1
        amap = {}
        for p, a in zip(params, args):
            nid = pmap[p.get("id")]
            if not is_pure(a, self.facts) and use.get(nid, 0) > 1:
                return None
            amap[nid] = a

        def sub(n):
            if isinstance(n, list):
                return [sub(x) for x in n]
            if not isinstance(n, dict):
                return n
            if n.get("k") == "Ref" and n.get("d") == "local" and n.get("id") in amap:
                return copy.deepcopy(amap[n["id"]])
            return {key: (sub(v) if isinstance(v, (dict, list)) else v) for key, v in n.items()}
        res = sub(expr)
        # `obj.*member` with the pointer to member now a literal `&Class::field` is the member access
        for n in walk(res):
            if n.get("k") == "Bin" and n.get("op") in (".*", "->*"):
                r_ = unwrap(n.get("rhs"))
                while isinstance(r_, dict) and r_.get("k") == "Cast":
                    r_ = unwrap(r_.get("e"))
                if isinstance(r_, dict) and r_.get("k") == "Un" and r_.get("op") == "&":
                    fld = unwrap(r_.get("e"))
                    if isinstance(fld, dict) and fld.get("k") == "Ref" and fld.get("d") == "Field" and fld.get("qn"):
                        base, arrow, t_, l_ = n.get("lhs"), n["op"] == "->*", n.get("t"), n.get("l")
                        n.clear()
                        n.update({"k": "Member", "field": True, "n": fld["n"], "cls": fld["qn"].rsplit("::", 1)[0], "base": base, "t": t_, "l": l_})
                        if arrow:
                            n["arrow"] = True
        self.note(cid, is_lam, True)
        return res

    def note(self, cid, is_lam, ok):
        if is_lam:
            if ok and cid is not None:
                self._lambda_calls[cid] = self._lambda_calls.get(cid, 0) + 1
            return
        d = self.inlined_calls if ok else self.kept_calls
        d[cid] = d.get(cid, 0) + 1

    def tx_leaf(self, s, stack, fn):
        # first the expression-level pass (also descends into lambdas passed as arguments)
        if s.get("k") == "Decl":
            s2 = dict(s)
            vs = []
            for v in s.get("vars", []):
                v2 = dict(v)
                if isinstance(v.get("init"), dict):
                    v2["init"] = self.tx_expr(v["init"], stack, fn)
                vs.append(v2)
            s2["vars"] = vs
            s = s2
        elif s.get("k") == "Return":
            s2 = dict(s)
            if isinstance(s.get("e"), dict):
                s2["e"] = self.tx_expr(s["e"], stack, fn)
            s = s2
        else:
            s = self.tx_expr(s, stack, fn)
        # N3: a conditional expression that selects between effects is lifted to an if/else statement
        lifted = self.lift_cond(s)
        if lifted is not None:
            return self.tx_block(lifted, stack, fn)
        # N4: std::for_each / std::accumulate over a whole container with an inline lambda is the loop it abbreviates
        looped = self.algorithm_loop(s)
        if looped is not None:
            return self.tx_block(looped, stack, fn)
        # statement-level: the call is the whole statement, the whole right-hand side, the whole initialiser or
        # the whole returned expression
        site = self.statement_site(s)
        self._tail = site is not None and s.get("k") == "Return"
        try:
            parts = self.callee_parts(site[0], stack) if site is not None else None
        finally:
            self._tail = False
        if parts is None:
            site = self.statement_site(s, nested=True)
            parts = self.callee_parts(site[0], stack) if site is not None else None
        if parts is None:
            return [s]
        return self._inline_site(s, site, parts, stack, fn)

    def _inline_site(self, s, site, parts, stack, fn):
        call, K, void_ok = site
        params, body, recv, name, is_lam, cid, args = parts
        if len(args) < len(params):
            return [s]
        prefix = []
        if isinstance(s, dict) and s.get("k") == "Decl" and len(s.get("vars", [])) == 1 and \
                sum(1 for x in walk(body) if x.get("k") == "Return" and x.get("e") is not None) > 1 and not s["vars"][0].get("ref"):
            # `T x = helper(..);` with a helper that returns from several places: declare x first, every return stores into it
            v = s["vars"][0]
            v0 = {kk: vv for kk, vv in v.items() if kk != "init"}
            if (v0.get("t") or "").startswith("const "):
                v0["t"] = v0["t"][6:]           # it now receives its value by assignment
            prefix = [{"k": "Decl", "l": s.get("l"), "vars": [v0]}]

            def K(e, v=v, s=s):
                if e is None:
                    raise NoInline("void result initialises a variable")
                return [{"k": "Bin", "op": "=", "l": s.get("l"), "t": v.get("t"),
                         "lhs": {"k": "Ref", "d": "local", "id": v.get("id"), "n": v.get("n"), "t": v.get("t"), "l": s.get("l")}, "rhs": e}]
        if recv is not None and unwrap(recv).get("k") != "This" and path(recv) is None:
            self.note(cid, is_lam, False)
            return [s]
        body_i, pmap = self.instantiate(params, body, recv)
        rebound = self.bind_function_arguments(body_i, params, args, pmap)
        try:
            sts, ft = self.tail(ir.stmts(body_i), K, void_ok)
        except NoInline as ex:
            self.note(cid, is_lam, False)
            self.log.append("%s: call of %s at line %s stays a call (%s)" % (fn.get("qn"), name, call.get("l"), ex))
            return [s]
        if ft and not void_ok:
            self.note(cid, is_lam, False)
            return [s]
        if ft:
            sts = sts + K(None)
        self.note(cid, is_lam, True)
        res = prefix + self.bind(params, args, pmap, call.get("l")) + sts
        # a lambda handed in as an argument is now a local with a known body: calls through the parameter can be
        # expanded in turn (bounded by the nesting depth)
        new_lams = {}
        for d in res:
            if isinstance(d, dict) and d.get("k") == "Decl":
                for v in d.get("vars", []):
                    init = unwrap(v.get("init")) if v.get("init") is not None else None
                    while isinstance(init, dict) and init.get("k") in ("Construct", "Cast") and (init.get("copymove") or init.get("k") == "Cast"):
                        init = unwrap(init["args"][0] if init.get("k") == "Construct" else init.get("e"))
                    if isinstance(init, dict) and init.get("k") == "Lambda":
                        new_lams[v["id"]] = init
                    elif isinstance(init, dict) and init.get("k") == "Ref" and init.get("d") == "local" and init.get("id") in getattr(self, "_lambdas", {}):
                        # a named local lambda handed in by reference: the parameter is another name for it
                        new_lams[v["id"]] = self._lambdas[init["id"]]
                        self._lambda_calls[init["id"]] = self._lambda_calls.get(init["id"], 0)
        if new_lams and len(stack) < MAX_DEPTH + 2:
            self._lambdas.update(new_lams)
            res = self.tx_block(res, stack + ("<lambda-arg>",), fn)
        elif rebound and len(stack) < MAX_DEPTH + 2:
            # calls through a function parameter became direct calls: they can be expanded in turn
            res = self.tx_block(res, stack + ("<function-arg>",), fn)
        return res

    def _if_effect_in_condition(self, n, stack, fn):
        """`if (A && helper().flag) S` (no else, A pure): the helper runs only when A holds - `if (A) { T r = helper(); if (r.flag) S }`;
        `if (helper().flag) S`: `T r = helper(); if (r.flag) S`.  Only for helpers that would be expanded at a declaration."""
        if n.get("condvar") is not None or n.get("else") is not None and False:
            return None
        c = unwrap(n.get("cond"))
        def result_member(e):
            u_ = unwrap(e)
            if isinstance(u_, dict) and u_.get("k") == "Un" and u_.get("op") == "!":
                u_ = unwrap(u_.get("e"))
            if not (isinstance(u_, dict) and u_.get("k") == "Member" and u_.get("field")):
                return False
            call_ = ir.unwrap_all_casts(u_.get("base"))
            while isinstance(call_, dict) and call_.get("k") == "Construct" and call_.get("copymove") and len(call_.get("args", [])) == 1:
                call_ = ir.unwrap_all_casts(call_["args"][0])
            return isinstance(call_, dict) and call_.get("k") in ("MCall", "Call") and isinstance(call_.get("callee"), dict) and \
                helper_type(self.facts, (call_.get("t") or "").replace("const ", "")) and self.target_function(call_, stack[-1] if stack else None) is not None
        if isinstance(c, dict) and c.get("k") == "Bin" and c.get("op") == "&&" and n.get("else") is None and is_pure(c.get("lhs"), self.facts) and \
                result_member(c.get("rhs")):
            inner = {"k": "If", "l": n.get("l"), "cond": c["rhs"], "then": n.get("then")}
            outer = {"k": "If", "l": n.get("l"), "cond": c["lhs"], "then": {"k": "Block", "l": n.get("l"), "s": [inner]}}
            return self.tx_stmt(outer, stack, fn)
        # `if (A && step() == 0) <leave>` (no else, A pure, step() a member function of the same object with an effect): the
        # step runs only when A holds, and its answer decides whether the branch is taken -
        # `if (A) { T r = step(); if (r == 0) <leave> }`.  What comes after the if sees the step as a statement of its own.
        if isinstance(c, dict) and c.get("k") == "Bin" and c.get("op") == "&&" and n.get("else") is None and is_pure(c.get("lhs"), self.facts) and \
                ir.leaves_function(n.get("then")):
            t_ = unwrap(c.get("rhs"))
            wrap = []
            while isinstance(t_, dict) and t_.get("k") == "Un" and t_.get("op") == "!":
                wrap.append(t_)
                t_ = unwrap(t_.get("e"))
            call_, side = None, None
            if isinstance(t_, dict) and t_.get("k") == "Bin" and t_.get("op") in ("==", "!=", "<", ">", "<=", ">="):
                for sd, other in (("lhs", "rhs"), ("rhs", "lhs")):
                    x_ = ir.unwrap_all_casts(t_.get(sd))
                    if isinstance(x_, dict) and x_.get("k") == "MCall" and ir.const_value(t_.get(other)) is not None:
                        call_, side = x_, sd
            elif isinstance(t_, dict) and ir.unwrap_all_casts(t_) is not None and ir.unwrap_all_casts(t_).get("k") == "MCall":
                call_, side = ir.unwrap_all_casts(t_), None
            if call_ is not None and isinstance(call_.get("callee"), dict) and call_["callee"].get("inrepo") and \
                    call_["callee"].get("cls") == fn.get("cls") and ir.unwrap_all_casts(call_.get("recv") or {}).get("k") == "This" and \
                    not is_pure(call_, self.facts) and (call_.get("t") or "void").replace("const ", "") in _RESULT_INTS and \
                    all(is_pure(a_, self.facts) for a_ in call_.get("args", [])):
                vid = self.fresh()
                ty = (call_.get("t") or "").replace("const ", "")
                decl = {"k": "Decl", "l": n.get("l"), "vars": [{"n": "step", "id": vid, "t": ty, "tw": ty, "l": n.get("l"), "init": call_}]}
                ref = {"k": "Ref", "d": "local", "id": vid, "n": "step", "t": ty, "l": n.get("l")}

                def rep_(x):
                    if isinstance(x, list):
                        return [rep_(y) for y in x]
                    if not isinstance(x, dict):
                        return x
                    if x is call_:
                        return ref
                    return {kk: (rep_(vv) if isinstance(vv, (dict, list)) else vv) for kk, vv in x.items()}
                inner = {"k": "If", "l": n.get("l"), "cond": rep_(c["rhs"]), "then": n.get("then")}
                outer = {"k": "If", "l": n.get("l"), "cond": c["lhs"], "then": {"k": "Block", "l": n.get("l"), "s": [decl, inner]}}
                return [outer]
        # a member of a helper's by-value result
        neg = False
        u = c
        if isinstance(u, dict) and u.get("k") == "Un" and u.get("op") == "!":
            u, neg = unwrap(u.get("e")), True
        if isinstance(u, dict) and u.get("k") == "Member" and u.get("field"):
            call = ir.unwrap_all_casts(u.get("base"))
            while isinstance(call, dict) and call.get("k") == "Construct" and call.get("copymove") and len(call.get("args", [])) == 1:
                call = ir.unwrap_all_casts(call["args"][0])
            if isinstance(call, dict) and call.get("k") in ("MCall", "Call") and isinstance(call.get("callee"), dict) and \
                    helper_type(self.facts, (call.get("t") or "").replace("const ", "")) and self.target_function(call, stack[-1] if stack else None) is not None:
                vid = self.fresh()
                t = (call.get("t") or "").replace("const ", "")
                decl = {"k": "Decl", "l": n.get("l"), "vars": [{"n": "result", "id": vid, "t": t, "tw": t, "l": n.get("l"), "init": call}]}
                ref = {"k": "Ref", "d": "local", "id": vid, "n": "result", "t": t, "l": n.get("l")}
                m = dict(u)
                m["base"] = ref
                n2 = dict(n)
                n2["cond"] = {"k": "Un", "op": "!", "e": m, "t": "bool", "l": n.get("l")} if neg else m
                return self.tx_block([decl, n2], stack, fn)
        return None

    def _if_site(self, n, stack, fn):
        """`if (helper(..)) S [else S2]` where the helper has several returns: the helper runs first, and each of its returns
        decides the branch - its body is expanded with `if (<returned expression>) S else S2` at every return (a returned
        constant then selects the branch when constants are folded).  Only for small branches without declarations (they are
        copied once per return)."""
        if n.get("condvar") is not None:
            return None
        c = unwrap(n.get("cond"))
        neg = False
        if isinstance(c, dict) and c.get("k") == "Un" and c.get("op") == "!":
            c, neg = unwrap(c.get("e")), True
        if not (isinstance(c, dict) and c.get("k") in ("Call", "MCall")):
            return None
        branches = [b for b in (n.get("then"), n.get("else")) if b is not None]
        size = sum(1 for b in branches for x in walk(b) if ir.is_stmt_kind(x) or x.get("k") in ("Bin", "Call", "MCall", "OpCall"))
        if size > 12 or any(x.get("k") in ("Decl", "Lambda", "Break", "Continue", "Case", "Default") for b in branches for x in walk(b)):
            return None
        # (a branch may return: it is the caller's own return, copied as it is) but only a plain one
        if any(x.get("k") == "Return" and x.get("e") is not None and not is_pure(x["e"], self.facts) for b in branches for x in walk(b)):
            return None
        parts = self.callee_parts(c, stack)
        if parts is None:
            return None

        def K(e, n=n, neg=neg):
            if e is None:
                raise NoInline("void result used as a condition")
            m = copy.deepcopy({kk: vv for kk, vv in n.items() if kk != "cond"})
            m["cond"] = {"k": "Un", "op": "!", "e": e, "t": "bool", "l": n.get("l")} if neg else e
            return [m]
        return self._inline_site(n, (c, K, False), parts, stack, fn)

    # ---- N3 conditional lifting
    def lift_cond(self, s):
        k = s.get("k")
        if k not in ("Return", "Decl", "Bin", "Call", "MCall", "OpCall"):
            return None
        if k == "Decl" and (len(s.get("vars", [])) != 1 or s["vars"][0].get("init") is None or s["vars"][0].get("ref")):
            return None
        if k == "Bin" and not (s.get("op", "").endswith("=") and s["op"] not in ("==", "!=", "<=", ">=")):
            return None
        root = s["vars"][0]["init"] if k == "Decl" else (s.get("e") if k == "Return" else s)
        if root is None:
            return None
        # outermost conditional expressions that are evaluated unconditionally
        found = []

        def scan(n):
            n_ = n
            if not isinstance(n_, dict):
                return
            kk = n_.get("k")
            if kk == "Lambda":
                return
            if kk == "Cond":
                found.append(n_)
                return
            if kk == "Bin" and n_.get("op") in ("&&", "||", ","):
                scan(n_.get("lhs"))
                return
            for c in ir.children(n_):
                scan(c)
        scan(root)
        if not found:
            return None

        def has_effect(n):
            return any(x.get("k") in ("Call", "MCall", "OpCall", "Construct") and not is_pure(x, self.facts) for x in walk(n))
        # only worth lifting when the statement has an effect the rules look at
        if not has_effect(s):
            return None
        c0 = found[0]
        if not is_pure(c0.get("c"), self.facts):
            return None
        # the condition must not depend on anything the rest of the statement writes
        rps = read_paths(c0["c"])
        for n in walk(s):
            for (p, kind) in node_writes(n, self.facts, {}):
                if any(related(p, r) for r in rps):
                    return None
        f0 = ir.cond(c0["c"], None)
        same = [c for c in found if ir.cond(c["c"], None) == f0]
        # a selection between two constants (`x ? 2 : 1` as a member count) is a value, not a choice of effects
        if all(ir.const_value(c.get("a")) is not None and ir.const_value(c.get("b")) is not None for c in same):
            return None

        def pick(n, which):
            if isinstance(n, list):
                return [pick(x, which) for x in n]
            if not isinstance(n, dict):
                return n
            if any(n is c for c in same):
                return copy.deepcopy(n[which])
            return {key: (pick(v, which) if isinstance(v, (dict, list)) else v) for key, v in n.items()}
        if k == "Decl":
            v = s["vars"][0]
            v0 = {key: val for key, val in v.items() if key not in ("init", "const")}
            decl = {"k": "Decl", "l": s.get("l"), "vars": [v0]}
            ref = {"k": "Ref", "d": "local", "n": v["n"], "id": v["id"], "t": v.get("t"), "l": s.get("l")}

            def asg(e):
                return {"k": "Bin", "op": "=", "l": s.get("l"), "t": v.get("t"), "lhs": copy.deepcopy(ref), "rhs": e}
            then, els = asg(pick(v["init"], "a")), asg(pick(v["init"], "b"))
            return [decl, {"k": "If", "l": s.get("l"), "cond": c0["c"], "then": {"k": "Block", "l": s.get("l"), "s": [then]},
                           "else": {"k": "Block", "l": s.get("l"), "s": [els]}}]
        then, els = pick(s, "a"), pick(s, "b")
        return [{"k": "If", "l": s.get("l"), "cond": c0["c"], "then": {"k": "Block", "l": s.get("l"), "s": [then]},
                 "else": {"k": "Block", "l": s.get("l"), "s": [els]}}]

    # ---- N4 algorithms over a whole container
    @staticmethod
    def _whole_range(b, e):
        """Container expression X when (b, e) is (X.begin(), X.end()) / (std::begin(X), std::end(X)), else None."""
        def side(n, names):
            n = ir.unwrap_all_casts(n)
            if not isinstance(n, dict):
                return None
            if n.get("k") == "MCall" and ir.callee_name(n) in names and not n.get("args"):
                return n.get("recv")
            if n.get("k") == "Call" and strip_targs(callee_qn(n) or "") in tuple("std::" + x for x in names) and len(n.get("args", [])) == 1:
                return n["args"][0]
            return None
        x, y = side(b, ("begin", "cbegin")), side(e, ("end", "cend"))
        if x is None or y is None:
            return None
        px, py = path(x), path(y)
        if px is None or px != py:
            return None
        return x

    def _lambda_of(self, a):
        a = unwrap(a)
        while isinstance(a, dict) and a.get("k") in ("Construct", "Cast") and (a.get("copymove") or a.get("k") == "Cast"):
            a = unwrap(a["args"][0] if a.get("k") == "Construct" else a.get("e"))
        if isinstance(a, dict) and a.get("k") == "Lambda":
            return a
        if isinstance(a, dict) and a.get("k") == "Ref" and a.get("d") == "local" and a.get("id") in self._lambdas:
            return self._lambdas[a["id"]]
        return None

    def algorithm_loop(self, s):
        site = self.statement_site(s)
        call = None
        K = None
        if site is not None:
            call, K, _void = site
        if call is None or call.get("k") != "Call":
            return None
        q = strip_targs(callee_qn(call) or "")
        args = call.get("args", [])
        if q == "std::for_each" and len(args) == 3:
            rng_, lam = self._whole_range(args[0], args[1]), self._lambda_of(args[2])
            if rng_ is None or lam is None or len(lam.get("params", [])) != 1 or lam.get("body") is None:
                return None
            body, pmap = self.instantiate(lam["params"], lam["body"], None)
            try:
                sts, _ft = self.tail(ir.stmts(body), (lambda e: [{"k": "Continue"}]) , True)
            except NoInline:
                return None
            while sts and sts[-1].get("k") == "Continue":
                sts = sts[:-1]
            if any(x.get("k") == "Continue" for x in walk(sts)):
                pass        # `continue` inside nested branches keeps its meaning in the loop
            p = lam["params"][0]
            var = {"n": p.get("n") or "elem", "id": pmap[p["id"]], "t": p.get("t", ""), "l": call.get("l")}
            if p.get("t", "").endswith("&"):
                var["ref"] = True
            if s.get("k") == "Return":
                return None
            return [{"k": "RangeFor", "l": call.get("l"), "var": var, "range": rng_, "body": {"k": "Block", "l": call.get("l"), "s": sts}, "alg": "for_each"}]
        if q == "std::accumulate" and len(args) == 4:
            rng_, lam = self._whole_range(args[0], args[1]), self._lambda_of(args[3])
            if rng_ is None or lam is None or len(lam.get("params", [])) != 2 or lam.get("body") is None:
                return None
            body, pmap = self.instantiate(lam["params"], lam["body"], None)
            pa, px = lam["params"][0], lam["params"][1]
            acc = {"n": pa.get("n") or "acc", "id": pmap[pa["id"]], "t": (pa.get("t") or "").replace("const ", "").rstrip("&").strip(), "l": call.get("l"), "init": args[2]}
            accref = {"k": "Ref", "d": "local", "n": acc["n"], "id": acc["id"], "t": acc["t"], "l": call.get("l")}

            def Kret(e):
                return [{"k": "Bin", "op": "=", "l": call.get("l"), "t": acc["t"], "lhs": copy.deepcopy(accref), "rhs": e}]
            try:
                sts, ft = self.tail(ir.stmts(body), Kret, False)
            except NoInline:
                return None
            if ft:
                return None
            var = {"n": px.get("n") or "elem", "id": pmap[px["id"]], "t": px.get("t", ""), "l": call.get("l")}
            if px.get("t", "").endswith("&"):
                var["ref"] = True
            loop = {"k": "RangeFor", "l": call.get("l"), "var": var, "range": rng_, "body": {"k": "Block", "l": call.get("l"), "s": sts}, "alg": "accumulate"}
            try:
                rest = K(copy.deepcopy(accref))
            except NoInline:
                return None
            return [{"k": "Decl", "l": call.get("l"), "vars": [acc]}, loop] + rest
        return None

    def statement_site(self, s, nested=False):
        """Locate `call` when s has one of the forms  call; | lhs op= call; | T x = call; | return call;
        (nested=True: a single helper call among the arguments of the statement's own call)"""
        k = s.get("k")
        if nested:
            return self._nested_site(s)

        def is_call(e):
            u = unwrap(e)
            return isinstance(u, dict) and u.get("k") in ("Call", "MCall", "OpCall") and \
                (u.get("k") != "OpCall" or u.get("op") == "()" or self.tool_local_operator(u.get("callee") or {}))
        def drop(e):
            # a discarded result: the returned expression is still evaluated for its effects
            if e is None or is_pure(e, self.facts):
                return []
            return [e]
        if k in ("Call", "MCall", "OpCall") and is_call(s):
            return unwrap(s), drop, True
        if k == "Cast" and is_call(s):          # (void) f();
            return unwrap(s), drop, True
        if k == "Bin" and s.get("op", "").endswith("=") and s["op"] not in ("==", "!=", "<=", ">=") and is_call(s.get("rhs")) \
                and path(s.get("lhs")) is not None:
            def K(e, s=s):
                n = dict(s)
                n["rhs"] = e
                return [n]
            return unwrap(s["rhs"]), K, False
        if k == "OpCall" and s.get("op") == "=" and len(s.get("args", [])) == 2 and path(s["args"][0]) is not None:
            rhs = s["args"][1]
            inner = unwrap(rhs)
            while isinstance(inner, dict) and inner.get("k") in ("Construct", "Cast") and (inner.get("copymove") or inner.get("k") == "Cast") and \
                    (inner.get("args") or inner.get("e") is not None):
                inner = unwrap(inner["args"][0] if inner.get("k") == "Construct" else inner.get("e"))
            if is_call(inner):
                def K(e, s=s):
                    n = dict(s)
                    n["args"] = [s["args"][0], e]
                    return [n]
                return unwrap(inner), K, False
        if k == "Return" and s.get("e") is not None and is_call(s["e"]):
            def K(e, s=s):
                n = {"k": "Return", "l": s.get("l")}
                if e is not None:
                    n["e"] = e
                return [n]
            return unwrap(s["e"]), K, True
        if k == "Decl" and len(s.get("vars", [])) == 1 and s["vars"][0].get("init") is not None and not s["vars"][0].get("ref") and \
                not is_call(s["vars"][0]["init"]):
            # `T x = helper();` with a class type: the by-value result is moved (or constructed in place) into x
            i0 = unwrap(s["vars"][0]["init"])
            while isinstance(i0, dict) and ((i0.get("k") == "Construct" and i0.get("copymove") and len(i0.get("args", [])) == 1) or i0.get("k") == "Cast"):
                i0 = unwrap(i0["args"][0] if i0.get("k") == "Construct" else i0.get("e"))
            if i0 is not unwrap(s["vars"][0]["init"]) and is_call(i0) and helper_type(self.facts, (s["vars"][0].get("t") or "").replace("const ", "")):
                s = dict(s)
                v_ = dict(s["vars"][0])
                v_["init"] = i0
                s["vars"] = [v_]
        if k == "Decl" and len(s.get("vars", [])) == 1 and s["vars"][0].get("init") is not None and is_call(s["vars"][0]["init"]) \
                and not s["vars"][0].get("ref"):
            v = s["vars"][0]
            state = {"n": 0}

            def K(e, s=s, v=v):
                state["n"] += 1
                if state["n"] == 1:
                    v2 = dict(v)
                    v2["init"] = e
                    return [{"k": "Decl", "l": s.get("l"), "vars": [v2]}]
                raise NoInline("several returns feed a declaration")
            return unwrap(v["init"]), K, False
        return None

    def _nested_site(self, s):
        k = s.get("k")

        def is_call(e):
            u = unwrap(e)
            return isinstance(u, dict) and u.get("k") in ("Call", "MCall", "OpCall") and \
                (u.get("k") != "OpCall" or u.get("op") == "()")
        # a helper call nested in the arguments of the statement's own call (`list.push_back(make_item(x))`): it runs
        # before the outer call; allowed when it is the only thing with an effect besides that outer call
        root = None
        if k in ("Call", "MCall", "OpCall"):
            root = s
        elif k == "Bin" and s.get("op", "").endswith("=") and s["op"] not in ("==", "!=", "<=", ">="):
            root = unwrap(s.get("rhs"))
        elif k == "Return" and s.get("e") is not None:
            root = unwrap(s["e"])
        elif k == "Decl" and len(s.get("vars", [])) == 1 and s["vars"][0].get("init") is not None and not s["vars"][0].get("ref"):
            root = unwrap(s["vars"][0]["init"])
        # (the root may also be an operator expression: `value += uint64_t(next_byte()) << shift;` - the helper's statements
        # run before the statement, its returned expression takes the place of the call; everything else in the statement has to
        # be pure)
        if isinstance(root, dict):
            nested = []
            above = {}

            def scan(n, top, anc):
                if not isinstance(n, dict):
                    return
                kk = n.get("k")
                if kk == "Lambda":
                    return
                if kk == "Cond":
                    scan(n.get("c"), False, anc)
                    return
                if kk == "Bin" and n.get("op") in ("&&", "||", ","):
                    scan(n.get("lhs"), False, anc)
                    return
                if not top and is_call(n):
                    u = unwrap(n)
                    nested.append(u)
                    above[id(u)] = anc
                    if self.find_lambda(u, self._lambdas) is None and self.target_function(u) is None:
                        # not a helper itself (`read_int(next_head())`): its arguments are evaluated before it runs, a helper
                        # call among them runs before everything the statement does
                        for c in ir.children(u):
                            scan(c, False, anc + [u])
                    return
                for c in ir.children(n):
                    scan(c, False, anc)
            scan(root, True, [])
            cand = [n for n in nested if (self.find_lambda(n, self._lambdas) is not None or self.target_function(n) is not None)]
            others = [n for n in nested if not any(n is c for c in cand) and not (len(cand) == 1 and any(n is a_ for a_ in above[id(cand[0])]))]
            if len(cand) == 1 and all(is_pure(n, self.facts) for n in others):
                target = cand[0]

                def K(e, s=s, target=target):
                    def rep(n):
                        if isinstance(n, list):
                            return [rep(x) for x in n]
                        if not isinstance(n, dict):
                            return n
                        if n is target:
                            return e
                        return {key: (rep(v) if isinstance(v, (dict, list)) else v) for key, v in n.items()}
                    if e is None:
                        raise NoInline("a void helper in a value position")
                    return [rep(s)]
                return target, K, False
        return None


# ------------------------------------------------------------------------------------------------ propagation

def propagate(body, facts, memo):
    """Forward substitution of pure single-definition locals (N2).  Returns the number of uses replaced."""
    if body is None:
        return 0
    env = ir.Env(body)
    # order numbers, loop membership
    order = {}
    loops_of = {}
    cnt = [0]

    def number(n, loops):
        if isinstance(n, list):
            for x in n:
                number(x, loops)
            return
        if not isinstance(n, dict):
            return
        cnt[0] += 1
        order[id(n)] = cnt[0]
        loops_of[id(n)] = loops
        l2 = loops + (id(n),) if n.get("k") in ("While", "Do", "For", "RangeFor") else loops
        for c in ir.children(n):
            number(c, l2)
    number(body, ())
    writes = []

    def collect_writes():
        """(Re)computed before every round: substitution renames the paths that writes and reads go through."""
        del writes[:]
        # `&x` handed straight to a call is a write at that call (C APIs: deflate(&strm, ..)), not a lasting escape
        arg_addr = set()
        for n in walk(body):
            if id(n) not in order:
                continue
            if n.get("k") in ("Call", "MCall", "OpCall", "Construct"):
                for a in n.get("args", []):
                    ua = unwrap(a)
                    while isinstance(ua, dict) and ua.get("k") == "Cast":
                        ua = unwrap(ua.get("e"))
                    if isinstance(ua, dict) and ua.get("k") == "Un" and ua.get("op") == "&":
                        arg_addr.add(id(ua))
                        p = path(ua.get("e"))
                        if p is not None:
                            writes.append((order[id(n)], p, loops_of[id(n)], "byref"))
        for n in walk(body):
            if id(n) not in order:
                continue
            for (p, kind) in node_writes(n, facts, memo):
                if kind == "escape" and id(n) in arg_addr:
                    continue
                writes.append((order[id(n)], p, loops_of[id(n)], kind))
    collect_writes()
    # candidates
    cands = {}
    for n in walk(body):
        if n.get("k") != "Decl" or len(n.get("vars", [])) != 1:
            continue
        v = n["vars"][0]
        if "n" not in v or v.get("init") is None or v.get("static") or v.get("tls") or "vla" in v:
            continue
        key = "l:%s#%s" % (v["n"], v["id"])
        init = v["init"]
        # a reference cannot be re-seated: writing "to it" writes the object it names
        fixed_ref = bool(v.get("ref")) and path(init) is not None
        if key in env.assigned and not fixed_ref:
            continue
        if v.get("ref") and not fixed_ref:
            continue          # a reference to an element / to a call result stays a name of its own
        if not is_pure(init, facts):
            continue
        ui = unwrap(init)
        if isinstance(ui, dict) and ui.get("k") == "Lambda":
            continue
        t = v.get("t", "")
        if "iterator" in t:
            continue
        cands[v["id"]] = (n, v, init, read_paths(init))
    if not cands:
        return 0
    # a candidate whose address is taken / that is written through (l:x.field = ...) stays
    for (o, p, lp, kind) in writes:
        if p and p[0].startswith("l:"):
            for cid, (n, v, init, rp) in list(cands.items()):
                if p[0] == "l:%s#%s" % (v["n"], v["id"]) and not v.get("ref"):
                    del cands[cid]
    replaced = 0
    remaining = {cid: 0 for cid in cands}

    def harmful(cid, use):
        n, v, init, rps = cands[cid]
        if v.get("ref") and path(init) is not None:
            # a reference bound to a fixed sub-object (or to the payload slot of an optional, which lives inside the
            # optional) is that object, whatever is written to it in between
            return False
        d_o = order[id(n)]
        u_o = order[id(use)]
        d_loops = set(loops_of[id(n)])
        u_loops = set(loops_of[id(use)])
        for (w_o, p, w_loops, kind) in writes:
            if not any(related(p, r) for r in rps):
                continue
            if kind == "escape":
                return True
            if d_o < w_o < u_o:
                return True
            for L in w_loops:
                if L in u_loops and L not in d_loops:
                    return True
        return False

    # iterate to a fixpoint so that chains (a = p.x; b = a.y) collapse; initialisers are substituted first
    for _round in range(6):
        changed = False
        if _round:
            collect_writes()
        for cid, (dn, v, init, rps) in list(cands.items()):
            # refresh the initialiser's read set (it may itself have been rewritten)
            cands[cid] = (dn, v, v["init"], read_paths(v["init"]))

        def rewrite(n, parent_key=None):
            nonlocal replaced, changed
            if isinstance(n, list):
                for i, x in enumerate(n):
                    r = rewrite(x)
                    if r is not None:
                        n[i] = r
                return None
            if not isinstance(n, dict):
                return None
            if n.get("k") == "Ref" and n.get("d") == "local" and n.get("id") in cands:
                cid = n["id"]
                if id(n) not in order:
                    return None
                if not harmful(cid, n):
                    new = copy.deepcopy(cands[cid][2])
                    # the copy takes the use's position for later ordering questions
                    for x in walk(new):
                        order[id(x)] = order[id(n)]
                        loops_of[id(x)] = loops_of[id(n)]
                    replaced += 1
                    changed = True
                    return new
                remaining[cid] = remaining.get(cid, 0) + 1
                return None
            for key in list(n.keys()):
                val = n[key]
                if isinstance(val, dict):
                    r = rewrite(val)
                    if r is not None:
                        n[key] = r
                elif isinstance(val, list):
                    rewrite(val)
            return None
        for cid in remaining:
            remaining[cid] = 0
        rewrite(body)
        if not changed:
            break
    # declarations without remaining uses disappear
    dead = set()
    uses = {}
    for n in walk(body):
        if n.get("k") == "Ref" and n.get("d") == "local" and n.get("id") in cands:
            uses[n["id"]] = uses.get(n["id"], 0) + 1
        if n.get("k") == "Lambda":
            for c in n.get("captures", []):
                pass
    for cid in cands:
        if uses.get(cid, 0) == 0:
            dead.add(cid)
    if dead:
        _drop(body, dead)
    return replaced


def _drop(n, dead):
    if isinstance(n, dict):
        for key, v in list(n.items()):
            if key == "s" and isinstance(v, list):
                keep = []
                for s in v:
                    if isinstance(s, dict) and s.get("k") == "Decl":
                        vs = [x for x in s.get("vars", []) if x.get("id") not in dead]
                        if not vs:
                            continue
                        s["vars"] = vs
                    keep.append(s)
                n["s"] = keep
                for s in keep:
                    _drop(s, dead)
            elif isinstance(v, (dict, list)):
                _drop(v, dead)
    elif isinstance(n, list):
        for x in n:
            _drop(x, dead)


# ------------------------------------------------------------------------------------------------ constants

def fold_constants(body, enums):
    """Substitution can make an expression constant that the compiler saw as dependent on a parameter
    (get_map_index(key) inside a helper): give such nodes the `cv` the extractor would have attached."""
    from . import minieval

    def val(n):
        n0 = n
        n = unwrap(n)
        if not isinstance(n, dict):
            return None
        if "cv" in n0 and not isinstance(n0["cv"], str):
            return int(n0["cv"])
        if "cv" in n and not isinstance(n["cv"], str):
            return int(n["cv"])
        k = n.get("k")
        if k == "Ref" and n.get("d") == "enumconst":
            return n.get("val")
        if k == "Lit" and isinstance(n.get("v"), (int, bool)) and not n.get("float"):
            return int(n["v"])
        if k == "Un" and n.get("op") == "!" and isinstance(n.get("e"), dict):
            v = val(n["e"])
            return None if v is None else int(not v)
        return None

    def rec(n):
        if isinstance(n, list):
            for x in n:
                rec(x)
            return
        if not isinstance(n, dict):
            return
        for c in ir.children(n):
            rec(c)
        if "cv" in n:
            # a constant conditional still selects one of its operands (the rules look at which enumerator it is)
            if n.get("k") == "Cond" and isinstance(n.get("c"), dict) and val(n["c"]) is not None:
                pick = n.get("a") if val(n["c"]) else n.get("b")
                if isinstance(pick, dict) and is_pure(n["c"]):
                    keep = copy.deepcopy(pick)
                    n.clear()
                    n.update(keep)
            return
        k = n.get("k")
        if k == "Call" and strip_targs(callee_qn(n) or "") == "CDNS::get_map_index" and len(n.get("args", [])) == 1:
            v = val(n["args"][0])
            if v is not None:
                n["cv"] = minieval.wrap(v, n.get("t"), enums)
        elif k == "Cast" and n.get("e") is not None:
            v = val(n["e"])
            t = (n.get("t") or "").replace("const ", "")
            if v is not None and (t in minieval.BITS or (enums and t in enums)):
                n["cv"] = minieval.wrap(v, t, enums)
        elif k == "If" and isinstance(n.get("cond"), dict) and "condvar" not in n and "init" not in n:
            cv_ = val(n["cond"])
            if cv_ is not None:
                taken = n.get("then") if cv_ else n.get("else")
                keep = copy.deepcopy(taken) if isinstance(taken, dict) else {"k": "Null", "l": n.get("l")}
                n.clear()
                n.update(keep)
        elif k == "Bin" and n.get("op") in ("&&", "||") and isinstance(n.get("lhs"), dict) and isinstance(n.get("rhs"), dict):
            # a constant left operand decides, or drops out (`std::is_signed<T>::value && v < 0` in a template instance)
            lv = val(n["lhs"])
            if lv is not None:
                decides = (n["op"] == "&&" and not lv) or (n["op"] == "||" and lv)
                if decides:
                    l_ = n.get("l")
                    v_ = bool(lv)
                    n.clear()
                    n.update({"k": "Lit", "v": v_, "t": "bool", "cv": int(v_), "l": l_})
                else:
                    keep = copy.deepcopy(n["rhs"])
                    n.clear()
                    n.update(keep)
        elif k in ("Bin", "OpCall") and n.get("op") in ("==", "!=") and "cv" not in n:
            # a policy parameter bound to an enumerator at an expanded call site: `kind == StringKind::text`
            a_ = n.get("lhs") if k == "Bin" else (n.get("args") or [None, None])[0]
            b_ = n.get("rhs") if k == "Bin" else (n.get("args") or [None, None])[1] if len(n.get("args", [])) == 2 else None
            ua, ub = unwrap(a_) if isinstance(a_, dict) else None, unwrap(b_) if isinstance(b_, dict) else None
            while isinstance(ua, dict) and ua.get("k") == "Cast":
                ua = unwrap(ua.get("e"))
            while isinstance(ub, dict) and ub.get("k") == "Cast":
                ub = unwrap(ub.get("e"))
            if isinstance(ua, dict) and isinstance(ub, dict) and ua.get("k") == "Ref" and ub.get("k") == "Ref" and \
                    ua.get("d") == "enumconst" and ub.get("d") == "enumconst" and ua.get("enum") == ub.get("enum") and ua.get("enum"):
                v_ = (ua.get("val") == ub.get("val")) == (n["op"] == "==")
                l_ = n.get("l")
                n.clear()
                n.update({"k": "Lit", "v": bool(v_), "t": "bool", "cv": int(v_), "l": l_})
        elif k == "Bin" and n.get("op") in ("+", "-", "*") and "cv" not in n and isinstance(n.get("lhs"), dict) and isinstance(n.get("rhs"), dict):
            # integer arithmetic over constants the front end did not fold in a template instance (`1 + sizeof(T)`)
            a_, b_ = ir.const_value(n["lhs"]), ir.const_value(n["rhs"])
            t_ = (n.get("t") or "").replace("const ", "")
            if isinstance(a_, int) and isinstance(b_, int) and not isinstance(a_, bool) and not isinstance(b_, bool) and \
                    t_ in ("unsigned long", "long", "int", "unsigned int", "std::size_t", "size_t", "unsigned long long", "long long"):
                v_ = a_ + b_ if n["op"] == "+" else (a_ - b_ if n["op"] == "-" else a_ * b_)
                if 0 <= v_ < (1 << 31):
                    l_ = n.get("l")
                    n.clear()
                    n.update({"k": "Lit", "v": v_, "cv": v_, "t": t_, "l": l_})
        elif k == "Cond":
            # a conditional whose condition became a literal is the selected branch
            cv_ = val(n.get("c")) if isinstance(n.get("c"), dict) else None
            if cv_ is not None:
                pick = n.get("a") if cv_ else n.get("b")
                if isinstance(pick, dict):
                    keep = copy.deepcopy(pick)
                    n.clear()
                    n.update(keep)
        elif k == "Bin" and n.get("op") in ("|=", "&=") and (unwrap(n.get("lhs")) or {}).get("t") == "bool":
            # flag |= true  is  flag = true ;  flag |= false  does nothing  (and dually for &=)
            v = val(n.get("rhs"))
            if v is not None:
                sets = (n["op"] == "|=" and v) or (n["op"] == "&=" and not v)
                if sets:
                    n["op"] = "="
                else:
                    n.clear()
                    n.update({"k": "Null", "l": 0})
    rec(body)


# ------------------------------------------------------------------------------------------------ named constants

def literal_like(e, depth=0):
    """A constant initialiser made of literals only (numbers, strings, a string object built from a literal)."""
    u = unwrap(e)
    if not isinstance(u, dict) or depth > 6:
        return False
    k = u.get("k")
    if k in ("Lit", "Str"):
        return True
    if "cv" in u:
        return True
    if k == "Cast":
        return literal_like(u.get("e"), depth + 1)
    if k == "Construct" and len(u.get("args", [])) in (1, 2) and "basic_string" in (u.get("t") or ""):
        return literal_like(u["args"][0], depth + 1)
    return False


def substitute_named_constants(body, facts):
    """A reference to a const namespace-scope / static-member object with a literal initialiser is that literal."""
    consts = getattr(facts, "_const_inits", None)
    if consts is None:
        consts = {}
        for v in facts.vars:
            if v.get("init") is not None and (v.get("const") or v.get("constexpr")) and not v.get("staticlocal") and literal_like(v["init"]):
                consts.setdefault(v["qn"], v["init"])
                consts.setdefault(v["qn"].replace("std::string", "std::basic_string<char>"), v["init"])
        facts._const_inits = consts
    if not consts:
        return 0
    n = [0]

    def rec(x):
        if isinstance(x, list):
            for i, y in enumerate(x):
                r = rec(y)
                if r is not None:
                    x[i] = r
            return None
        if not isinstance(x, dict):
            return None
        if x.get("k") == "Ref" and x.get("d") == "global" and x.get("qn") in consts and "cv" not in x:
            n[0] += 1
            return copy.deepcopy(consts[x["qn"]])
        for key in list(x.keys()):
            v = x[key]
            if isinstance(v, dict):
                r = rec(v)
                if r is not None:
                    x[key] = r
            elif isinstance(v, list):
                rec(v)
        return None
    rec(body)
    return n[0]


# ------------------------------------------------------------------------------------------------ late lifting

def post_lift(body, inl):
    """Substitution can bring a conditional expression into a call that selects between effects
    (`m = neg ? ~v : v; write_int(m, neg ? NEGATIVE : UNSIGNED)`): lift those too.  Returns number lifted."""
    n = [0]

    def block(sts):
        out = []
        for s in sts:
            out.extend(stmt(s))
        return out

    def wrap(s, sts):
        if len(sts) == 1:
            return sts[0]
        return {"k": "Block", "l": s.get("l") if isinstance(s, dict) else None, "s": sts}

    def stmt(s):
        if not isinstance(s, dict):
            return [s]
        k = s.get("k")
        if k == "Block":
            s["s"] = block(s.get("s", []))
            return [s]
        if k == "If":
            if s.get("then") is not None:
                s["then"] = wrap(s["then"], stmt(s["then"]))
            if s.get("else") is not None:
                s["else"] = wrap(s["else"], stmt(s["else"]))
            return [s]
        if k in ("While", "Do", "For", "RangeFor", "Switch"):
            if s.get("body") is not None:
                s["body"] = wrap(s["body"], stmt(s["body"]))
            return [s]
        if k in ("Case", "Default"):
            if s.get("sub") is not None:
                s["sub"] = wrap(s["sub"], stmt(s["sub"]))
            return [s]
        if k == "Try":
            s["body"] = wrap(s["body"], stmt(s["body"]))
            for h in s.get("handlers", []):
                h["body"] = wrap(h["body"], stmt(h["body"]))
            return [s]
        if k in ("Break", "Continue", "Null", "Opaque", "OtherStmt"):
            return [s]
        r = inl.lift_cond(s)
        if r is None:
            return [s]
        n[0] += 1
        return block(r)
    if isinstance(body, dict) and body.get("k") == "Block":
        body["s"] = block(body.get("s", []))
    return n[0]


# ------------------------------------------------------------------------------------------------ driver

def eliminate_local_memos(body, facts, memo=None):
    """N6: a function-local one-entry memo around a lookup

        bool have = false; K last_key; V last_val;                       (declared in an enclosing scope S)
        ...  if (!have || key != last_key) { A..; last_key = key; last_val = E; have = true; }   use(last_val)

    is the lookup itself (`A..; use(E)`) when nothing the lookup reads is written anywhere in S and the three memo variables
    are touched nowhere else.  Rewriting it that way lets the rules see where the value comes from.  Returns the number of
    memos removed."""
    removed = 0
    decl_block = {}
    for b in walk(body):
        if b.get("k") == "Block":
            for st in b.get("s", []):
                if isinstance(st, dict) and st.get("k") == "Decl":
                    for v in st.get("vars", []):
                        if "id" in v:
                            decl_block[v["id"]] = (b, st, v)

    def local_id(e):
        u = unwrap(e)
        if isinstance(u, dict) and u.get("k") == "Ref" and u.get("d") == "local":
            return u.get("id")
        return None

    def refs(n, vid):
        return [x for x in walk(n) if x.get("k") == "Ref" and x.get("d") == "local" and x.get("id") == vid]

    for B in [b for b in walk(body) if b.get("k") == "Block"]:
        sts = B.get("s", [])
        for idx, I in enumerate(list(sts)):
            if not (isinstance(I, dict) and I.get("k") == "If" and I.get("else") is None and I.get("condvar") is None):
                continue
            c = unwrap(I.get("cond"))
            if not (isinstance(c, dict) and c.get("k") == "Bin" and c.get("op") == "||"):
                continue
            flag = keyv = key = None
            for side in (c["lhs"], c["rhs"]):
                u = unwrap(side)
                if isinstance(u, dict) and u.get("k") == "Un" and u.get("op") == "!" and local_id(u.get("e")) is not None:
                    flag = local_id(u["e"])
                elif isinstance(u, dict) and u.get("k") == "Bin" and u.get("op") == "!=":
                    if local_id(u["rhs"]) is not None and local_id(u["rhs"]) in decl_block:
                        keyv, key = local_id(u["rhs"]), u["lhs"]
                    if local_id(u["lhs"]) is not None and keyv is None:
                        keyv, key = local_id(u["lhs"]), u["rhs"]
            if flag is None or keyv is None or key is None or flag not in decl_block or keyv not in decl_block:
                continue
            T = ir.stmts(I.get("then"))
            A, stores = [], {}
            for t in T:
                u = unwrap(t)
                if isinstance(u, dict) and u.get("k") == "Bin" and u.get("op") == "=" and local_id(u.get("lhs")) is not None and \
                        local_id(u["lhs"]) in decl_block and decl_block[local_id(u["lhs"])][0] is not I.get("then"):
                    stores[local_id(u["lhs"])] = u["rhs"]
                else:
                    A.append(t)
            if flag not in stores or keyv not in stores or len(stores) != 3:
                continue
            val = [k_ for k_ in stores if k_ not in (flag, keyv)][0]
            if ir.const_value(stores[flag]) not in (1, True) or ir.show(stores[keyv]) != ir.show(key):
                continue
            E = stores[val]
            # the stores come last, in the then-branch's own list
            if any(unwrap(t).get("k") == "Bin" and local_id(unwrap(t).get("lhs")) in stores for t in T[:len(A)] if isinstance(unwrap(t), dict)):
                continue
            # memo variables: declared outside B's then-branch, initial flag false, no other write, reads where expected
            fb, fst, fv = decl_block[flag]
            if fv.get("init") is None or ir.const_value(fv["init"]) not in (0, False):
                continue
            ok = True
            for vid in (flag, keyv, val):
                for x, parents in ir.walk_with_parents(body):
                    if not (x.get("k") == "Ref" and x.get("d") == "local" and x.get("id") == vid):
                        continue
                    par = parents[-1] if parents else None
                    in_I = any(p_ is I for p_ in parents)
                    if vid in (flag, keyv) and not in_I:
                        ok = False
                    if vid == val and not in_I:
                        # a read after I inside B
                        top = [p_ for p_ in parents if any(p_ is s_ for s_ in sts)]
                        if not top or sts.index(top[0]) <= idx:
                            ok = False
                        if isinstance(par, dict) and ((par.get("k") == "Bin" and par.get("op", "").endswith("=") and par["op"] not in ("==", "!=", "<=", ">=") and unwrap(par.get("lhs")) is x)
                                                      or (par.get("k") == "Un" and par.get("op") in ("pre++", "post++", "pre--", "post--", "&"))):
                            ok = False
                    if in_I and vid == val and not any(x is y for y in walk(I.get("then"))):
                        ok = False
            if not ok or any(refs(E, v_) for v_ in (flag, keyv, val)) or any(refs(a_, v_) for a_ in A for v_ in (flag, keyv, val)):
                continue
            # stability: what the lookup reads is written nowhere in the scope of the flag
            own = set()
            for a_ in A:
                for x in walk(a_):
                    if x.get("k") == "Decl":
                        for v in x.get("vars", []):
                            own.add("l:%s#%s" % (v.get("n"), v.get("id")))
            read_roots = set()
            for part in A + [E]:
                for x in walk(part):
                    p_ = path(x) if x.get("k") in ("Ref", "Member", "This") else None
                    if p_ and p_[0] not in own:
                        read_roots.add(p_[0])
            key_roots = set(path(x)[0] for x in walk(key) if x.get("k") in ("Ref", "Member") and path(x))
            scope = fb.get("s", [])
            scope = scope[[i for i, s_ in enumerate(scope) if s_ is fst][0] + 1:]
            written = set()
            for s_ in scope:
                for x in walk(s_):
                    if any(x is y for a_ in A for y in walk(a_)):
                        continue
                    for wp, how in node_writes(x, facts, memo if memo is not None else {}):
                        written.add(wp[0] if wp else "*")
                    # a local declared inside the scope takes a new value every time round: not stable either
                    if x.get("k") == "Decl":
                        for v in x.get("vars", []):
                            written.add("l:%s#%s" % (v.get("n"), v.get("id")))
                    if x.get("k") == "RangeFor" and isinstance(x.get("var"), dict):
                        written.add("l:%s#%s" % (x["var"].get("n"), x["var"].get("id")))
            if "*" in written or (read_roots - key_roots) & written:
                continue
            # rewrite
            E2 = E
            new_sts = sts[:idx] + A + sts[idx + 1:]

            def rep(n):
                if isinstance(n, list):
                    return [rep(y) for y in n]
                if not isinstance(n, dict):
                    return n
                if n.get("k") == "Ref" and n.get("d") == "local" and n.get("id") == val:
                    return copy.deepcopy(E2)
                return {kk: (rep(v) if isinstance(v, (dict, list)) else v) for kk, v in n.items()}
            B["s"] = new_sts[:idx + len(A)] + [rep(s_) for s_ in new_sts[idx + len(A):]]
            removed += 1
            break
    return removed


def _demorgan_memo_test(I, decl_block):
    """`if (!have || k != a ..) MISS else HIT`  ->  `if (have && k == a ..) HIT else MISS` (the form N6b is written for);
    only when every disjunct is the negated local bool or a `!=` of plain operands, so the rewrite cannot change an evaluation"""
    c = unwrap(I.get("cond"))

    def disj(e):
        u = unwrap(e)
        if isinstance(u, dict) and u.get("k") == "Bin" and u.get("op") == "||":
            return disj(u["lhs"]) + disj(u["rhs"])
        return [u]
    ds = disj(c)
    if len(ds) < 2:
        return False
    out = []
    seen_flag = False
    for d in ds:
        if isinstance(d, dict) and d.get("k") == "Un" and d.get("op") == "!":
            u = ir.unwrap_all_casts(d.get("e"))
            if isinstance(u, dict) and u.get("k") == "Ref" and u.get("d") == "local" and u.get("id") in decl_block and \
                    (decl_block[u["id"]][2].get("t") or "") == "bool" and not seen_flag:
                seen_flag = True
                out.append(d["e"])
                continue
            return False
        if isinstance(d, dict) and d.get("k") == "Bin" and d.get("op") == "!=":
            e = dict(d)
            e["op"] = "=="
            out.append(e)
            continue
        return False
    if not seen_flag:
        return False
    cond = out[0]
    for e in out[1:]:
        cond = {"k": "Bin", "op": "&&", "lhs": cond, "rhs": e, "t": "bool", "l": I.get("l")}
    I["cond"] = cond
    I["then"], I["else"] = I["else"], I["then"]
    return True


def eliminate_branch_memos(body, facts, memo=None):
    """N6b: a one-entry memo in hit/miss form

        bool have = false; K1 k1; K2 k2; V val;                                   (declared in an enclosing scope S)
        if (have && k1 == a && k2 == b) { out = val; REST }                       hit
        else { A..  (somewhere, in exactly one block:)  k1 = a; k2 = b; val = E; have = true; out = E; REST }

    is its miss branch without the memo stores, when
      * the hit branch is what the storing block does after its stores, with E for val (so a hit repeats the stored outcome);
      * every statement in S that writes something the lookup reads is followed, in its own block, by `have = false`;
      * the memo variables are touched nowhere else.
    Returns the number of memos removed."""
    removed = 0
    decl_block = {}
    for b in walk(body):
        if b.get("k") == "Block":
            for st in b.get("s", []):
                if isinstance(st, dict) and st.get("k") == "Decl":
                    for v in st.get("vars", []):
                        if "id" in v:
                            decl_block[v["id"]] = (b, st, v)

    def local_id(e):
        u = ir.unwrap_all_casts(e)
        if isinstance(u, dict) and u.get("k") == "Ref" and u.get("d") == "local":
            return u.get("id")
        return None

    def conj(e):
        u = unwrap(e)
        if isinstance(u, dict) and u.get("k") == "Bin" and u.get("op") == "&&":
            return conj(u["lhs"]) + conj(u["rhs"])
        return [u]

    def eq_sides(u):
        if not isinstance(u, dict):
            return None
        if u.get("k") == "Bin" and u.get("op") == "==":
            return u.get("lhs"), u.get("rhs")
        if u.get("k") in ("OpCall", "Call") and (u.get("op") == "==" or (ir.callee_name(u) or "") == "operator==") and len(u.get("args", [])) == 2:
            return u["args"][0], u["args"][1]
        return None

    def store_of(st):
        u = unwrap(st) if isinstance(st, dict) else None
        if isinstance(u, dict) and u.get("k") == "Bin" and u.get("op") == "=" and local_id(u.get("lhs")) is not None:
            return local_id(u["lhs"]), u["rhs"]
        if isinstance(u, dict) and u.get("k") == "OpCall" and u.get("op") == "=" and len(u.get("args", [])) == 2 and local_id(u["args"][0]) is not None:
            return local_id(u["args"][0]), u["args"][1]
        return None

    def strip_copy(e):
        u = ir.unwrap_all_casts(e)
        while isinstance(u, dict) and u.get("k") == "Construct" and u.get("copymove") and len(u.get("args", [])) == 1:
            u = ir.unwrap_all_casts(u["args"][0])
        return u

    for B in [b for b in walk(body) if b.get("k") == "Block"]:
        sts = B.get("s", [])
        for idx, I in enumerate(list(sts)):
            if not (isinstance(I, dict) and I.get("k") == "If" and I.get("else") is not None and I.get("condvar") is None):
                continue
            _demorgan_memo_test(I, decl_block)
            cs = conj(I.get("cond"))
            flag = None
            keys = {}           # key variable id -> key expression
            okc = True
            for c in cs:
                if local_id(c) is not None and (decl_block.get(local_id(c), (None, None, {}))[2].get("t") or "") == "bool" and flag is None:
                    flag = local_id(c)
                    continue
                e = eq_sides(c)
                if e is None:
                    okc = False
                    break
                a, b = e
                if local_id(a) is not None and local_id(a) in decl_block and local_id(a) not in keys:
                    keys[local_id(a)] = b
                elif local_id(b) is not None and local_id(b) in decl_block and local_id(b) not in keys:
                    keys[local_id(b)] = a
                else:
                    okc = False
                    break
            if not okc or flag is None or not keys or flag not in decl_block:
                continue
            # the storing block in the miss branch
            leaf = None
            for blk in walk(I["else"]):
                if blk.get("k") != "Block":
                    continue
                st_ = [store_of(x) for x in blk.get("s", [])]
                ids = [x[0] for x in st_ if x is not None]
                if flag in ids:
                    if leaf is not None:
                        leaf = "many"
                        break
                    leaf = blk
            if leaf is None or leaf == "many":
                continue
            stores = {}
            rest_leaf = []
            bad = False
            for x in leaf.get("s", []):
                so = store_of(x)
                if so is not None and so[0] in decl_block and not any(y is decl_block[so[0]][1] for y in walk(I)) and \
                        (so[0] == flag or so[0] in keys or (so[0] not in stores and not rest_leaf and decl_block[so[0]][0] is decl_block[flag][0])):
                    if so[0] in stores:
                        bad = True
                    stores[so[0]] = so[1]
                else:
                    rest_leaf.append(x)
            if bad or flag not in stores or ir.const_value(stores[flag]) not in (1, True) or not all(k_ in stores for k_ in keys):
                continue
            if not all(ir.show(strip_copy(stores[k_])) == ir.show(strip_copy(keys[k_])) for k_ in keys):
                continue
            vals = {k_: v_ for k_, v_ in stores.items() if k_ != flag and k_ not in keys}
            if not vals:
                continue
            memo_ids = set(stores)

            # hit branch == rest of the leaf with E for val
            def rep(n):
                if isinstance(n, list):
                    return [rep(y) for y in n]
                if not isinstance(n, dict):
                    return n
                if n.get("k") == "Ref" and n.get("d") == "local" and n.get("id") in vals:
                    return copy.deepcopy(vals[n["id"]])
                return {kk: (rep(v) if isinstance(v, (dict, list)) else v) for kk, v in n.items()}
            hit = [x for x in ir.stmts(I["then"]) if not (isinstance(x, dict) and x.get("k") == "Null")]
            miss = [x for x in rest_leaf if not (isinstance(x, dict) and x.get("k") == "Null")]

            def txt(lst):
                return [ir.show(ir.unwrap_all_casts(x)) if not ir.is_stmt_kind(x) else json_key(x) for x in lst]

            def json_key(x):
                return repr(_shape(x))
            if [_shape(x) for x in rep(hit)] != [_shape(x) for x in rep(miss)]:
                continue
            miss_reads_val = any(x.get("k") == "Ref" and x.get("d") == "local" and x.get("id") in vals for y in miss for x in walk(y))
            if miss_reads_val:
                # the rest of the storing block reads the remembered value right after storing it: that is E as long as
                # nothing there writes what E reads (E is evaluated later once the store is gone)
                e_roots = set()
                for v_ in vals.values():
                    if not is_pure(v_, facts):
                        e_roots.add("*")
                    for x in walk(v_):
                        p_ = path(x) if x.get("k") in ("Ref", "Member", "This") else None
                        if p_:
                            e_roots.add(p_[0])
                w_ = set()
                for y in miss:
                    for x in walk(y):
                        for wp, how in node_writes(x, facts, memo if memo is not None else {}):
                            w_.add(wp[0] if wp else "*")
                val_roots = set("l:%s#%s" % (decl_block[i_][2].get("n"), i_) for i_ in vals)
                if "*" in e_roots or "*" in w_ or (e_roots & w_) or (val_roots & w_):
                    continue
            # nothing in the miss branch other than the leaf's stores mentions the memo; E mentions no memo variable
            def mentions(n, ids):
                return any(x.get("k") == "Ref" and x.get("d") == "local" and x.get("id") in ids for x in walk(n))
            store_nodes = set()
            for x in leaf.get("s", []):
                so = store_of(x)
                if so is not None and so[0] in memo_ids:
                    store_nodes.add(id(x))
            leak = False
            for x, parents in ir.walk_with_parents(I["else"]):
                if x.get("k") == "Ref" and x.get("d") == "local" and x.get("id") in memo_ids:
                    if miss_reads_val and x.get("id") in vals and any(p_ is y for p_ in parents for y in rest_leaf):
                        continue            # a read of the value just stored (replaced by E below)
                    if not any(id(p_) in store_nodes for p_ in parents + (x,)):
                        leak = True
            if leak or any(mentions(v_, memo_ids) for v_ in vals.values()):
                continue
            # initial state: the flag starts out false
            fb, fst, fv = decl_block[flag]
            if fv.get("init") is None or ir.const_value(fv["init"]) not in (0, False):
                continue
            # other mentions of the memo variables: only `flag = false` statements
            invalidations = []
            ok = True
            for x, parents in ir.walk_with_parents(body):
                if not (x.get("k") == "Ref" and x.get("d") == "local" and x.get("id") in memo_ids):
                    continue
                if any(p_ is I for p_ in parents):
                    continue
                if any(p_.get("k") == "Decl" for p_ in parents):
                    continue            # its own declaration's initialiser cannot mention it; another's would be a read
                stm = None
                for p_ in reversed(parents):
                    so = store_of(p_)
                    if so is not None and so[0] == flag and x.get("id") == flag and ir.const_value(so[1]) in (0, False):
                        stm = p_
                        break
                if stm is None:
                    ok = False
                    break
                invalidations.append(stm)
            if not ok:
                continue
            # stability of what the lookup reads
            own = set()
            for x in walk(I["else"]):
                if x.get("k") == "Decl":
                    for v in x.get("vars", []):
                        own.add("l:%s#%s" % (v.get("n"), v.get("id")))
            read_roots = set()
            for x in walk(I["else"]):
                if id(x) in store_nodes:
                    continue
                p_ = path(x) if x.get("k") in ("Ref", "Member", "This") else None
                if p_ and p_[0] not in own:
                    read_roots.add(p_[0])
            key_roots = set()
            for k_ in keys.values():
                for x in walk(k_):
                    if x.get("k") in ("Ref", "Member") and path(x):
                        key_roots.add(path(x)[0])
            out_roots = set()
            for x in miss:
                so = store_of(x)
                if so is not None:
                    out_roots.add("l:%s#%s" % (decl_block[so[0]][2].get("n"), so[0]) if so[0] in decl_block else None)
            watch = read_roots - key_roots - out_roots - set("l:%s#%s" % (decl_block[i][2].get("n"), i) for i in memo_ids)
            scope = fb.get("s", [])
            scope = scope[[i for i, s_ in enumerate(scope) if s_ is fst][0] + 1:]
            stable = True
            inv_ids = set(id(x) for x in invalidations)

            def check_list(lst):
                """every statement of lst (recursively) that writes a watched root is followed in its list by an invalidation"""
                nonlocal stable
                for i_, s_ in enumerate(lst):
                    if not isinstance(s_, dict) or s_ is I:
                        continue
                    direct = set()
                    for x in walk(s_):
                        if any(x is y for y in walk(I)):
                            continue
                        for wp, how in node_writes(x, facts, memo if memo is not None else {}):
                            direct.add(wp[0] if wp else "*")
                    if not (direct & watch) and "*" not in direct:
                        continue
                    # does a later statement of this list invalidate, with I not in between?
                    later_ok = False
                    for t_ in lst[i_ + 1:]:
                        if any(y is I for y in walk(t_)):
                            break
                        if id(unwrap(t_)) in inv_ids or id(t_) in inv_ids:
                            later_ok = True
                            break
                    if later_ok:
                        continue
                    # otherwise the write must be settled inside the statement's own blocks
                    inner = [b_ for b_ in walk(s_) if b_.get("k") == "Block" and b_ is not s_]
                    if s_.get("k") in ("Block",):
                        check_list(s_.get("s", []))
                    elif s_.get("k") in ("If", "While", "For", "Do", "RangeFor", "Try", "Switch"):
                        # heads (conditions) must not write; bodies are checked on their own
                        head_writes = set()
                        for key_ in ("cond", "inc", "init", "range"):
                            if isinstance(s_.get(key_), dict):
                                for x in walk(s_[key_]):
                                    for wp, how in node_writes(x, facts, memo if memo is not None else {}):
                                        head_writes.add(wp[0] if wp else "*")
                        if head_writes & watch or "*" in head_writes:
                            stable = False
                        for key_ in ("then", "else", "body"):
                            if isinstance(s_.get(key_), dict):
                                check_list(ir.stmts(s_[key_]))
                        for h_ in s_.get("handlers", []) or []:
                            check_list(ir.stmts(h_.get("body")))
                        for c_ in s_.get("cases", []) or []:
                            stable = False
                    else:
                        stable = False
            check_list(scope)
            if not stable:
                continue
            # rewrite: the If becomes its miss branch without the memo stores; invalidations and declarations go
            leaf["s"] = [(rep(x) if miss_reads_val else x) for x in leaf.get("s", []) if id(x) not in store_nodes]

            def straighten(lst):
                # `if (c) <leaves> else X` inside what used to be the miss branch is `if (c) <leaves>; X`
                out = []
                for x in lst:
                    if isinstance(x, dict) and x.get("k") == "If" and x.get("else") is not None and x.get("condvar") is None and \
                            x.get("then") is not None and ir.always_leaves(x["then"]):
                        y = dict(x)
                        rest_ = ir.stmts(y.pop("else"))
                        out.append(y)
                        out.extend(straighten(rest_))
                    elif isinstance(x, dict) and x.get("k") == "Null":
                        continue
                    else:
                        out.append(x)
                return out
            B["s"] = sts[:idx] + straighten(ir.stmts(I["else"])) + sts[idx + 1:]
            dead_nodes = inv_ids

            def prune(n):
                if isinstance(n, dict):
                    for key_, v in list(n.items()):
                        if key_ == "s" and isinstance(v, list):
                            out = []
                            for x in v:
                                if isinstance(x, dict) and (id(x) in dead_nodes or id(unwrap(x)) in dead_nodes):
                                    continue
                                if isinstance(x, dict) and x.get("k") == "Decl" and x.get("vars") and all(y.get("id") in memo_ids for y in x["vars"]):
                                    continue
                                prune(x)
                                out.append(x)
                            n[key_] = out
                        elif isinstance(v, (dict, list)):
                            prune(v)
                elif isinstance(n, list):
                    for x in n:
                        prune(x)
            prune(body)
            removed += 1
            break
    return removed


def _shape(n):
    """structure of a statement / expression without line numbers and local ids' declaration details"""
    if isinstance(n, list):
        return [_shape(x) for x in n]
    if not isinstance(n, dict):
        return n
    if n.get("k") == "Cast" and n.get("style") == "implicit":
        return _shape(n.get("e"))
    if n.get("k") == "Construct" and n.get("copymove") and len(n.get("args", [])) == 1:
        return _shape(n["args"][0])
    return {k: _shape(v) for k, v in sorted(n.items()) if k not in ("l", "t", "tw", "cv", "from", "ck", "elidable")}


def forward_commits(body, f, facts, whole=None):
    """N11 build aside and commit: a member function that fills top-level locals and ends with a group of statements that
    install each of them in a member (`m_x = x;`, `m_x = std::move(x);`, `m_x.swap(x);`) - the members being mentioned
    nowhere else in the function - computes the same final state as the function that works on the members directly.  The
    locals are renamed to the members (their declarations become the assignment of their initial value, a default-constructed
    container becomes clear()), and the commit group goes.  What differs is only the state left behind by an exception,
    which no rule that looks at normalised bodies speaks about.  Returns the number of locals forwarded."""
    if not f.get("cls") or not isinstance(body, dict) or body.get("k") != "Block" or f.get("ctor") or f.get("dtor") or f.get("static"):
        return 0
    if whole is None:
        # also inside `if (this != &rhs) { ... }` and similar single guards at the top of the function
        extra = 0
        for st_ in body.get("s", []):
            if isinstance(st_, dict) and st_.get("k") == "If" and st_.get("else") is None and isinstance(st_.get("then"), dict) and st_["then"].get("k") == "Block":
                extra += forward_commits(st_["then"], f, facts, whole=body)
        if extra:
            return extra
    scope = whole if whole is not None else body
    top = body.get("s", [])
    end = len(top)
    while end > 0 and isinstance(top[end - 1], dict) and (top[end - 1].get("k") == "Null" or
                                                          (top[end - 1].get("k") == "Return" and (top[end - 1].get("e") is None or is_pure(top[end - 1]["e"], facts)))):
        end -= 1
    tail_rest = top[end:]

    def local_ref(e):
        u = ir.unwrap_all_casts(e)
        while isinstance(u, dict) and ((u.get("k") == "Construct" and u.get("copymove") and len(u.get("args", [])) == 1) or
                                       (u.get("k") == "Call" and ir._is_move(u) and len(u.get("args", [])) == 1)):
            u = ir.unwrap_all_casts(u["args"][0])
        return u if isinstance(u, dict) and u.get("k") == "Ref" and u.get("d") == "local" else None

    def member_of_this(e):
        u = ir.unwrap_all_casts(e)
        if isinstance(u, dict) and u.get("k") == "Member" and u.get("field") and isinstance(ir.unwrap_all_casts(u.get("base")), dict) and \
                ir.unwrap_all_casts(u["base"]).get("k") == "This":
            return u
        return None
    pairs = []          # (member node, local id, statement)
    scratch = []        # (member node, scratch object id, statement)
    i = end
    while i > 0:
        st = top[i - 1]
        u = unwrap(st) if isinstance(st, dict) else None
        m = l = None
        if isinstance(u, dict) and u.get("k") == "Bin" and u.get("op") == "=":
            m, l = member_of_this(u.get("lhs")), local_ref(u.get("rhs"))
        elif isinstance(u, dict) and u.get("k") == "OpCall" and u.get("op") == "=" and len(u.get("args", [])) == 2:
            m, l = member_of_this(u["args"][0]), local_ref(u["args"][1])
        elif isinstance(u, dict) and u.get("k") == "MCall" and ir.callee_name(u) == "swap" and len(u.get("args", [])) == 1:
            m, l = member_of_this(u.get("recv")), local_ref(u["args"][0])
            if m is None:
                m, l = member_of_this(u["args"][0]), local_ref(u.get("recv"))
        if m is None or l is None:
            # the other source: the same member of a scratch object of the class itself (`m_x = parsed.m_x;`)
            src = None
            if m is not None and isinstance(u, dict):
                rhs_ = u.get("rhs") if u.get("k") == "Bin" else ((u.get("args") or [None, None])[1] if u.get("k") == "OpCall" else
                                                                  ((u.get("args") or [None])[0] if u.get("k") == "MCall" else None))
                r_ = ir.unwrap_all_casts(rhs_) if rhs_ is not None else None
                while isinstance(r_, dict) and ((r_.get("k") == "Construct" and r_.get("copymove") and len(r_.get("args", [])) == 1) or
                                                (r_.get("k") == "Call" and ir._is_move(r_) and len(r_.get("args", [])) == 1)):
                    r_ = ir.unwrap_all_casts(r_["args"][0])
                if isinstance(r_, dict) and r_.get("k") == "Member" and r_.get("field") and r_.get("n") == m.get("n"):
                    b_ = ir.unwrap_all_casts(r_.get("base"))
                    if isinstance(b_, dict) and b_.get("k") == "Ref" and b_.get("d") == "local":
                        src = b_["id"]
            if src is None:
                break
            scratch.append((m, src, st))
            i -= 1
            continue
        pairs.append((m, l["id"], st))
        i -= 1
    if scratch and not pairs and i > 0:
        return _forward_scratch(body, f, facts, top, i, scratch, tail_rest, member_of_this)
    if not pairs or i == 0 or scratch:
        return 0
    if len(set(p_[0]["n"] for p_ in pairs)) != len(pairs) or len(set(p_[1] for p_ in pairs)) != len(pairs):
        return 0
    head = top[:i]
    # each local is declared by a top-level declaration of its own in the head
    decl_at = {}
    for j, st in enumerate(head):
        if isinstance(st, dict) and st.get("k") == "Decl" and len(st.get("vars", [])) == 1 and st["vars"][0].get("id") in [p_[1] for p_ in pairs]:
            v = st["vars"][0]
            if v.get("ref") or v.get("static"):
                return 0
            decl_at[v["id"]] = j
    if len(decl_at) != len(pairs):
        return 0
    names = set(p_[0]["n"] for p_ in pairs)
    commit_ids = set(id(x) for p_ in pairs for x in walk(p_[2]))
    # the members are mentioned nowhere but in their commit; the locals nowhere after it
    for n in walk(scope):
        if id(n) in commit_ids:
            continue
        mm = member_of_this(n) if n.get("k") == "Member" else None
        if mm is not None and mm.get("n") in names:
            return 0
        if n.get("k") in ("MCall", "Call") and isinstance(n.get("callee"), dict) and n["callee"].get("cls") == f.get("cls") and \
                not n["callee"].get("const") and n.get("k") == "MCall" and isinstance(ir.unwrap_all_casts(n.get("recv")), dict) and \
                ir.unwrap_all_casts(n["recv"]).get("k") == "This":
            return 0            # another member function of the object may touch the members
    for st in tail_rest:
        for n in walk(st):
            if n.get("k") == "Ref" and n.get("d") == "local" and n.get("id") in decl_at:
                return 0
    # rewrite
    by_id = {p_[1]: p_[0] for p_ in pairs}
    new_head = []
    for j, st in enumerate(head):
        if isinstance(st, dict) and st.get("k") == "Decl" and len(st.get("vars", [])) == 1 and st["vars"][0].get("id") in by_id:
            v = st["vars"][0]
            m = copy.deepcopy(by_id[v["id"]])
            m["l"] = st.get("l")
            init = v.get("init")
            ui = ir.unwrap_all_casts(init) if init is not None else None
            t = (v.get("t") or "").replace("const ", "")
            if init is None:
                if t.startswith(("std::vector<", "std::deque<", "std::basic_string<", "std::unordered_map<", "std::map<", "std::set<", "std::unordered_set<", "std::list<")):
                    ui = {"k": "Construct", "args": [], "t": t}
                else:
                    return 0        # an uninitialised scalar
            if isinstance(ui, dict) and ui.get("k") == "Construct" and not ui.get("args") and \
                    t.startswith(("std::vector<", "std::deque<", "std::basic_string<", "std::unordered_map<", "std::map<", "std::set<", "std::unordered_set<", "std::list<")):
                new_head.append({"k": "MCall", "l": st.get("l"), "t": "void", "args": [], "recv": m,
                                 "callee": {"qn": t + "::clear", "cls": t, "sig": [], "inrepo": False, "ret": "void", "access": 0}})
            else:
                new_head.append({"k": "Bin", "op": "=", "l": st.get("l"), "t": v.get("t"), "lhs": m, "rhs": init})
        else:
            new_head.append(st)

    def rep(n):
        if isinstance(n, list):
            return [rep(x) for x in n]
        if not isinstance(n, dict):
            return n
        if n.get("k") == "Ref" and n.get("d") == "local" and n.get("id") in by_id:
            m = copy.deepcopy(by_id[n["id"]])
            m["l"] = n.get("l")
            return m
        out = {}
        for kk, vv in n.items():
            if kk == "captures" and isinstance(vv, list):
                out[kk] = [c for c in vv if not (isinstance(c, dict) and c.get("id") in by_id)]
            else:
                out[kk] = rep(vv) if isinstance(vv, (dict, list)) else vv
        return out
    body["s"] = rep(new_head) + tail_rest
    return len(pairs)


def _forward_scratch(body, f, facts, top, i, scratch, tail_rest, member_of_this):
    """N11, scratch-object form: `T parsed; .. parsed.m_x = ..; ..  m_x = parsed.m_x; m_y = std::move(parsed.m_y);` in a member
    function of T.  `parsed` is *this after default construction: its declaration becomes the member-wise effect of T's default
    constructor, `parsed.m` becomes `m`.  Stores to the committed members in front of the commit that nothing reads are
    dead (the commit overwrites them) and go first."""
    cls = f.get("cls")
    pids = set(p_[1] for p_ in scratch)
    if len(pids) != 1 or len(set(p_[0]["n"] for p_ in scratch)) != len(scratch):
        return 0
    pid = next(iter(pids))
    head = top[:i]
    decl_j = None
    for j, st in enumerate(head):
        if isinstance(st, dict) and st.get("k") == "Decl" and len(st.get("vars", [])) == 1 and st["vars"][0].get("id") == pid:
            v = st["vars"][0]
            if v.get("ref") or v.get("static") or (v.get("t") or "").replace("const ", "") != cls:
                return 0
            init = unwrap(v.get("init")) if v.get("init") is not None else None
            if init is not None and not (isinstance(init, dict) and init.get("k") == "Construct" and not init.get("args") and not init.get("copymove")):
                return 0
            decl_j = j
    if decl_j is None:
        return 0
    names = {p_[0]["n"]: p_[0] for p_ in scratch}
    commit_ids = set(id(x) for p_ in scratch for x in walk(p_[2]))
    # every mention of the scratch object is `parsed.<committed member>`
    for n, ps in ir.walk_with_parents(body):
        if id(n) in commit_ids:
            continue
        if n.get("k") == "Ref" and n.get("d") == "local" and n.get("id") == pid:
            chain = list(ps)
            while chain and chain[-1].get("k") == "Cast":
                chain.pop()
            par = chain[-1] if chain else None
            if not (isinstance(par, dict) and par.get("k") == "Member" and par.get("field") and par.get("n") in names and
                    ir.unwrap_all_casts(par.get("base")) is n):
                return 0
    # dead stores to the committed members of *this in front of the commit
    def reads_member(n_):
        return [x for x in walk(n_) if x.get("k") == "Member" and member_of_this(x) is not None and x.get("n") in names]
    dead = []
    for j, st in enumerate(head):
        u = unwrap(st) if isinstance(st, dict) else None
        tgt = None
        if isinstance(u, dict) and u.get("k") == "Bin" and u.get("op") == "=" and member_of_this(u.get("lhs")) is not None and is_pure(u.get("rhs"), facts):
            tgt = member_of_this(u["lhs"])
        elif isinstance(u, dict) and u.get("k") == "OpCall" and u.get("op") == "=" and len(u.get("args", [])) == 2 and \
                member_of_this(u["args"][0]) is not None and is_pure(u["args"][1], facts):
            tgt = member_of_this(u["args"][0])
        elif isinstance(u, dict) and u.get("k") == "MCall" and ir.callee_name(u) == "clear" and not u.get("args") and member_of_this(u.get("recv")) is not None:
            tgt = member_of_this(u["recv"])
        if tgt is not None and tgt.get("n") in names:
            dead.append((j, tgt))
    dead_nodes = set(id(x) for j, t_ in dead for x in walk(head[j]))
    for n in walk(body):
        if id(n) in commit_ids or id(n) in dead_nodes:
            continue
        if n.get("k") == "Member" and member_of_this(n) is not None and n.get("n") in names:
            return 0            # a real use of the member before the commit
        if n.get("k") == "MCall" and isinstance(n.get("callee"), dict) and isinstance(ir.unwrap_all_casts(n.get("recv")), dict) and \
                ir.unwrap_all_casts(n["recv"]).get("k") == "This" and not n["callee"].get("const"):
            return 0
    for st in tail_rest:
        for n in walk(st):
            if n.get("k") == "Ref" and n.get("d") == "local" and n.get("id") == pid:
                return 0
    # the effect of the default constructor, member by member
    rec = facts.records.get(cls) or {}
    ctors = [c_ for c_ in list(facts.functions.values()) + list(getattr(facts, "absorbed", {}).values())
             if c_.get("cls") == cls and c_.get("ctor") and not c_.get("sig")]
    ctor = ctors[0] if len(ctors) == 1 else None
    if ctors and ctor is None:
        return 0
    if ctor is not None and ir.stmts(ctor.get("body_raw", ctor.get("body"))):
        return 0                # a constructor body: not expanded here
    by_member = {i_.get("member"): i_.get("init") for i_ in (ctor.get("inits", []) if ctor else []) or [] if i_.get("member") and i_.get("init") is not None}
    line = head[decl_j].get("l")
    init_sts = []
    for fl in rec.get("fields", []):
        if fl["n"] not in names:
            continue            # not committed: the scratch object's copy of it is never looked at (checked above)
        m = copy.deepcopy(names[fl["n"]])
        m["l"] = line
        e = by_member.get(fl["n"], fl.get("init"))
        t = (fl.get("t") or "").replace("const ", "")
        if e is None:
            if t.startswith(("std::vector<", "std::deque<", "std::basic_string<", "std::unordered_map<", "std::map<", "std::set<", "std::list<")):
                init_sts.append({"k": "MCall", "l": line, "t": "void", "args": [], "recv": m,
                                 "callee": {"qn": t + "::clear", "cls": t, "sig": [], "inrepo": False, "ret": "void", "access": 0}})
                continue
            if "optional<" in t:
                e = {"k": "Construct", "args": [], "t": t, "l": line}
            else:
                return 0
        init_sts.append({"k": "Bin", "op": "=", "l": line, "t": fl.get("t"), "lhs": m, "rhs": copy.deepcopy(e)})
    dead_js = set(j for j, t_ in dead)
    new_head = []
    for j, st in enumerate(head):
        if j in dead_js:
            continue
        if j == decl_j:
            new_head.extend(init_sts)
        else:
            new_head.append(st)

    def rep(n):
        if isinstance(n, list):
            return [rep(x) for x in n]
        if not isinstance(n, dict):
            return n
        if n.get("k") == "Member" and n.get("field") and n.get("n") in names:
            b_ = ir.unwrap_all_casts(n.get("base"))
            if isinstance(b_, dict) and b_.get("k") == "Ref" and b_.get("d") == "local" and b_.get("id") == pid:
                m = copy.deepcopy(names[n["n"]])
                m["l"] = n.get("l")
                return m
        out = {}
        for kk, vv in n.items():
            if kk == "captures" and isinstance(vv, list):
                out[kk] = [c for c in vv if not (isinstance(c, dict) and c.get("id") == pid)]
            else:
                out[kk] = rep(vv) if isinstance(vv, (dict, list)) else vv
        return out
    body["s"] = rep(new_head) + tail_rest
    return len(scratch)


def sink_refined_stores(body, facts):
    """N13a: `if (h == K) { A; x = K; } else { B; x = h; }` stores the same value on both edges - under h == K the constant K *is*
    h - so the store is `x = h` after the If (h a local that A and B do not write, x a local they do not mention otherwise).
    The test may be spelled any way that is true exactly for h == K (`!h`, `!(h != 0)`, swapped branches).  Returns the
    number of Ifs rewritten."""
    count = 0
    for b in [x for x in walk(body) if x.get("k") == "Block"]:
        sts = b.get("s", [])
        i = 0
        while i < len(sts):
            st = sts[i]
            i += 1
            if not (isinstance(st, dict) and st.get("k") == "If" and st.get("else") is not None and st.get("condvar") is None):
                continue
            br = []
            for key in ("then", "else"):
                l_ = [x for x in ir.stmts(st[key]) if not (isinstance(x, dict) and x.get("k") == "Null")]
                u = unwrap(l_[-1]) if l_ else None
                if not (isinstance(u, dict) and u.get("k") == "Bin" and u.get("op") == "="):
                    br = None
                    break
                lp = ir.unwrap_all_casts(u.get("lhs"))
                if not (isinstance(lp, dict) and lp.get("k") == "Ref" and lp.get("d") == "local"):
                    br = None
                    break
                br.append((l_, u, lp))
            if not br or br[0][2].get("id") != br[1][2].get("id"):
                continue
            xid = br[0][2]["id"]
            for ci, vi in ((0, 1), (1, 0)):
                kc = ir.const_value(br[ci][1].get("rhs"))
                hv = ir.unwrap_all_casts(br[vi][1].get("rhs"))
                if kc is None or isinstance(kc, str) or not (isinstance(hv, dict) and hv.get("k") == "Ref" and hv.get("d") in ("local", "param")):
                    continue
                if hv.get("id") == xid and hv.get("d") == "local":
                    continue
                hkey = path(hv)[0]
                f_ = ir.cond(st["cond"], None)
                want = (ci == 0)            # the constant branch is `then`: the condition must be h == K
                vals = [ir.eval_formula(f_, {hkey: kc}), ir.eval_formula(f_, {hkey: kc + 1}), ir.eval_formula(f_, {hkey: kc + 7})]
                if vals != [want, not want, not want]:
                    continue
                if any(a_[0] == "nz" and (a_[1] if isinstance(a_[1], str) else ir.path_str(a_[1])) != hkey or
                       a_[0] == "cmp" and hkey not in (a_[2], a_[3]) for a_ in ir.walk_formula(f_) if a_[0] in ("nz", "cmp")):
                    continue
                # neither branch writes h or mentions x before its final store
                bad = False
                for l_, u, lp in br:
                    for x in l_[:-1]:
                        for y in walk(x):
                            if y.get("k") == "Ref" and y.get("d") == "local" and y.get("id") == xid:
                                bad = True
                            if y.get("k") == "Bin" and (y.get("op") or "").endswith("=") and y.get("op") not in ("==", "!=", "<=", ">=") and \
                                    path(y.get("lhs")) == path(hv):
                                bad = True
                            if y.get("k") == "Un" and y.get("op") in ("pre++", "post++", "pre--", "post--", "&") and path(y.get("e")) == path(hv):
                                bad = True
                if bad:
                    continue
                store = br[vi][0][-1]
                for key, (l_, u, lp) in zip(("then", "else"), br):
                    st[key] = {"k": "Block", "l": st.get("l"), "s": l_[:-1]}
                if not st["then"]["s"] and st["else"]["s"]:
                    c0 = ir.unwrap_all_casts(st["cond"])
                    st["cond"] = c0["e"] if isinstance(c0, dict) and c0.get("k") == "Un" and c0.get("op") == "!" else \
                        {"k": "Un", "op": "!", "e": st["cond"], "t": "bool", "l": st.get("l")}
                    st["then"], st["else"] = st["else"], None
                elif not st["else"]["s"]:
                    st["else"] = None
                if st.get("else") is None:
                    st.pop("else", None)
                if not st["then"]["s"] and st.get("else") is None and is_pure(st["cond"], facts):
                    sts[i - 1] = {"k": "Null"}
                sts.insert(i, store)
                count += 1
                break
    return count


def coalesce_copies(body, facts):
    """N13b: `T h = E; ...; x = h;` in one statement list, where x is a local of the same scalar type that nothing mentions
    between the declaration and the copy and h is not mentioned after it, is `x = E; ...` with x in place of h: the two
    variables never hold different values while both matter.  Returns the number of locals coalesced."""
    count = 0
    changed = True
    while changed:
        changed = False
        uses = {}
        for n in walk(body):
            if n.get("k") == "Ref" and n.get("d") == "local":
                uses[n.get("id")] = uses.get(n.get("id"), 0) + 1
        for b in [x for x in walk(body) if x.get("k") == "Block"]:
            sts = b.get("s", [])
            for i, st in enumerate(sts):
                if not (isinstance(st, dict) and st.get("k") == "Decl" and len(st.get("vars", [])) == 1):
                    continue
                v = st["vars"][0]
                if v.get("init") is None or "id" not in v or v.get("static"):
                    continue
                vt = (v.get("t") or "").replace("const ", "")
                if v.get("ref") or vt.endswith("&"):
                    # a const reference bound to the value a call returns is a value of its own
                    i0 = ir.unwrap_all_casts(v["init"])
                    if not ((v.get("t") or "").startswith("const ") and isinstance(i0, dict) and i0.get("k") in ("Call", "MCall") and
                            not ((i0.get("callee") or {}).get("ret") or "&").endswith("&")):
                        continue
                    vt = vt.rstrip("&").strip()
                hid = v["id"]
                for j in range(i + 1, len(sts)):
                    u = unwrap(sts[j])
                    if not (isinstance(u, dict) and u.get("k") == "Bin" and u.get("op") == "="):
                        continue
                    lp, rp = ir.unwrap_all_casts(u.get("lhs")), u.get("rhs")
                    rr = ir.unwrap_all_casts(rp)
                    if not (isinstance(lp, dict) and lp.get("k") == "Ref" and lp.get("d") == "local" and isinstance(rr, dict) and
                            rr.get("k") == "Ref" and rr.get("d") == "local" and rr.get("id") == hid and lp.get("id") != hid):
                        continue
                    if (lp.get("t") or "").replace("const ", "") != vt or rr is not unwrap(rp) and \
                            any(c_.get("k") == "Cast" and c_.get("ck") not in (None, "LValueToRValue", "NoOp") for c_ in walk(rp) if c_ is not rr):
                        break
                    xid = lp["id"]
                    inside = sum(1 for s_ in sts[i:j + 1] for y in walk(s_) if y.get("k") == "Ref" and y.get("d") == "local" and y.get("id") == hid)
                    x_between = any(y.get("k") == "Ref" and y.get("d") == "local" and y.get("id") == xid for s_ in sts[i:j] for y in walk(s_))
                    in_lambda = any(y.get("k") == "Lambda" for s_ in sts[i:j + 1] for y in walk(s_))
                    # (a handler that reads x would see the value earlier than before)
                    in_handler = any(y.get("k") == "Ref" and y.get("d") == "local" and y.get("id") == xid
                                     for t_ in walk(body) if t_.get("k") == "Try" for h_ in t_.get("handlers", []) for y in walk(h_.get("body")))
                    if inside != uses.get(hid, 0) or x_between or in_lambda or in_handler:
                        break
                    # x must be declared outside this window (it is: it is not mentioned in it) - rewrite
                    tmpl = copy.deepcopy(lp)
                    for s_ in sts[i + 1:j]:
                        for y in walk(s_):
                            if y.get("k") == "Ref" and y.get("d") == "local" and y.get("id") == hid:
                                l0 = y.get("l")
                                y.clear()
                                y.update(copy.deepcopy(tmpl))
                                y["l"] = l0
                    sts[i] = {"k": "Bin", "op": "=", "l": st.get("l"), "t": v.get("t"), "lhs": copy.deepcopy(tmpl), "rhs": v["init"]}
                    sts[j] = {"k": "Null"}
                    count += 1
                    changed = True
                    break
                if changed:
                    break
            if changed:
                break
    return count


def _alpha_equal(a, b, ren):
    """structural equality of two statements / expressions up to the names of the locals they declare (ren: id of a -> id of b)"""
    if isinstance(a, list):
        return isinstance(b, list) and len(a) == len(b) and all(_alpha_equal(x, y, ren) for x, y in zip(a, b))
    if not isinstance(a, dict):
        return a == b
    if not isinstance(b, dict) or a.get("k") != b.get("k"):
        return False
    if a.get("k") == "Ref" and a.get("d") == "local":
        return b.get("d") == "local" and ren.get(a.get("id"), a.get("id")) == b.get("id")
    if a.get("k") == "Decl":
        va, vb = a.get("vars", []), b.get("vars", [])
        if len(va) != len(vb):
            return False
        for x, y in zip(va, vb):
            if x.get("t") != y.get("t") or x.get("n") != y.get("n") or (x.get("init") is None) != (y.get("init") is None):
                return False
            if x.get("init") is not None and not _alpha_equal(x["init"], y["init"], ren):
                return False
            ren[x.get("id")] = y.get("id")
        return True
    for k_ in set(a) | set(b):
        if k_ in ("l", "tw", "id") and not (k_ == "id" and a.get("k") == "Ref" and a.get("d") == "param"):
            continue
        if k_ not in a or k_ not in b or not _alpha_equal(a[k_], b[k_], ren):
            return False
    return True


def _rename_locals(n, ren):
    for x in walk(n):
        if x.get("k") == "Ref" and x.get("d") == "local" and x.get("id") in ren:
            x["id"] = ren[x["id"]]
        elif x.get("k") == "Decl":
            for v in x.get("vars", []):
                if v.get("id") in ren:
                    v["id"] = ren[v["id"]]
        elif x.get("k") == "RangeFor" and isinstance(x.get("var"), dict) and x["var"].get("id") in ren:
            x["var"]["id"] = ren[x["var"]["id"]]


def _invariant_in(c, regions, facts, memo):
    """the pure expression c reads nothing that executing the regions can write"""
    if not is_pure(c, facts):
        return False
    ins = []

    def inputs(x):
        if isinstance(x, list):
            for y in x:
                inputs(y)
            return
        if not isinstance(x, dict):
            return
        if x.get("k") in ("Member", "Ref") and path(x) is not None:
            ins.append(tuple(path(x)))          # the whole access path, not also the objects it goes through
            return
        for y in ir.children(x):
            inputs(y)
    inputs(c)
    if any(x.get("k") in ("Call", "MCall", "OpCall") and path(x) is None for x in walk(c)):
        return False
    for r in regions:
        for n in walk(r):
            try:
                ws = node_writes(n, facts, memo)
            except RecursionError:
                return False
            for (wp, kind) in ws:
                if wp is None:
                    return False
                wp = tuple(wp)
                for ip in ins:
                    m = min(len(wp), len(ip))
                    if wp[:m] == ip[:m]:
                        return False
    return True


def reswitch_loops(body, facts, memo):
    """N14a (loop unswitching undone): `if (c) { for (x : L) B1; return r; }  for (x : L) B2; return r;` with c unchanged by both
    loops is `for (x : L) { if (c) B1 else B2 }  return r;` - the same statements run for the same elements in the same order.
    Returns the number of loop pairs merged."""
    count = 0
    for b in [x for x in walk(body) if x.get("k") == "Block"]:
        sts = b.get("s", [])
        for i, st in enumerate(sts):
            # the if/else form: `if (c) { for (x : L) B1 } else { for (x : L) B2 }`
            if isinstance(st, dict) and st.get("k") == "If" and st.get("else") is not None and st.get("condvar") is None:
                th_ = [x for x in ir.stmts(st["then"]) if not (isinstance(x, dict) and x.get("k") == "Null")]
                el_ = [x for x in ir.stmts(st["else"]) if not (isinstance(x, dict) and x.get("k") == "Null")]
                if len(th_) == 1 and len(el_) == 1 and th_[0].get("k") == "RangeFor" and el_[0].get("k") == "RangeFor":
                    l1, l2 = th_[0], el_[0]
                    v1, v2 = l1.get("var") or {}, l2.get("var") or {}
                    if ir.show(l1.get("range")) == ir.show(l2.get("range")) and v1.get("t") == v2.get("t") and "id" in v1 and "id" in v2 and \
                            _invariant_in(st["cond"], [l1.get("body"), l2.get("body")], facts, memo) and is_pure(l1.get("range"), facts):
                        _rename_locals(l1["body"], {v1["id"]: v2["id"]})
                        l2["body"] = {"k": "Block", "l": l2.get("l"), "s": [
                            {"k": "If", "l": st.get("l"), "cond": st["cond"], "then": l1["body"], "else": l2["body"]}]}
                        sts[i] = l2
                        count += 1
                continue
            if not (isinstance(st, dict) and st.get("k") == "If" and st.get("else") is None and st.get("condvar") is None):
                continue
            th = [x for x in ir.stmts(st["then"]) if not (isinstance(x, dict) and x.get("k") == "Null")]
            rest = [x for x in sts[i + 1:] if not (isinstance(x, dict) and x.get("k") == "Null")]
            if len(th) != 2 or len(rest) != 2 or th[0].get("k") != "RangeFor" or rest[0].get("k") != "RangeFor" or \
                    th[1].get("k") != "Return" or rest[1].get("k") != "Return":
                continue
            l1, l2 = th[0], rest[0]
            v1, v2 = l1.get("var") or {}, l2.get("var") or {}
            if ir.show(l1.get("range")) != ir.show(l2.get("range")) or v1.get("t") != v2.get("t") or "id" not in v1 or "id" not in v2:
                continue
            if (th[1].get("e") is None) != (rest[1].get("e") is None) or (th[1].get("e") is not None and not _alpha_equal(th[1]["e"], rest[1]["e"], {})):
                continue
            if not _invariant_in(st["cond"], [l1.get("body"), l2.get("body")], facts, memo) or not is_pure(l1.get("range"), facts):
                continue
            _rename_locals(l1["body"], {v1["id"]: v2["id"]})
            l2["body"] = {"k": "Block", "l": l2.get("l"), "s": [
                {"k": "If", "l": st.get("l"), "cond": st["cond"], "then": l1["body"], "else": l2["body"]}]}
            sts[i] = {"k": "Null"}
            count += 1
    return count


def merge_branch_ends(body, facts):
    """N14b (cross-jumping): statements that both branches of an If begin with - equal up to the names of the locals they declare,
    and not able to change the condition - are executed before the If on either edge; statements both branches end with are
    executed after it (when neither branch leaves early).  `if (c) { A; X; Z } else { A; Y; Z }` is `A; if (c) X else Y; Z`.
    Returns the number of statements moved."""
    moved = 0
    memo = {}
    for b in [x for x in walk(body) if x.get("k") == "Block"]:
        sts = b.get("s", [])
        i = 0
        while i < len(sts):
            st = sts[i]
            if not (isinstance(st, dict) and st.get("k") == "If" and st.get("else") is not None and st.get("condvar") is None and
                    isinstance(st.get("then"), dict) and st["then"].get("k") == "Block" and isinstance(st["else"], dict) and st["else"].get("k") == "Block"):
                i += 1
                continue
            ta = [x for x in st["then"]["s"] if not (isinstance(x, dict) and x.get("k") == "Null")]
            ea = [x for x in st["else"]["s"] if not (isinstance(x, dict) and x.get("k") == "Null")]
            head = []
            ren = {}
            while ta and ea and _alpha_equal(ta[0], ea[0], ren) and _invariant_in(st["cond"], [ta[0]], facts, memo) and \
                    not any(y.get("k") in ("Return", "Break", "Continue", "Goto", "Label", "Case", "Default") for y in walk(ta[0])):
                head.append(ea.pop(0))
                ta.pop(0)
            # the then-branch goes on with the else-branch's names for what the moved declarations declare
            if head and ren:
                for x in ta:
                    _rename_locals(x, ren)
            tail = []
            if not ir.always_leaves(st["then"]) and not ir.always_leaves(st["else"]):
                while ta and ea:
                    r2 = dict(ren)
                    # a common tail must not mention locals declared in the (different) middles
                    mid_decl = set(v.get("id") for m_ in ta[:-1] + ea[:-1] for y in walk(m_) if y.get("k") == "Decl" for v in y.get("vars", []))
                    if not _alpha_equal(ta[-1], ea[-1], r2) or r2 != ren or \
                            any(y.get("k") == "Ref" and y.get("d") == "local" and y.get("id") in mid_decl for y in walk(ea[-1])) or \
                            any(y.get("k") in ("Decl",) for y in walk(ea[-1])):
                        break
                    tail.insert(0, ea.pop())
                    ta.pop()
            if not head and not tail:
                i += 1
                continue
            st["then"]["s"], st["else"]["s"] = ta, ea
            new = list(head)
            if ta or ea:
                if not ta:
                    c0 = ir.unwrap_all_casts(st["cond"])
                    st["cond"] = c0["e"] if isinstance(c0, dict) and c0.get("k") == "Un" and c0.get("op") == "!" else \
                        {"k": "Un", "op": "!", "e": st["cond"], "t": "bool", "l": st.get("l")}
                    st["then"], st["else"] = st["else"], None
                    st.pop("else", None)
                elif not ea:
                    st.pop("else", None)
                new.append(st)
            elif not is_pure(st["cond"], facts):
                new.append(st)
            new.extend(tail)
            sts[i:i + 1] = new
            moved += len(head) + len(tail)
            i += len(new)
    return moved


def coalesce_value_copies(body):
    """`T y = x;` (the by-value parameter of an expanded helper) with x a local of the same type that is not mentioned again
    anywhere after the declaration: y takes over x's name - the two never hold different values while both matter.  Returns
    the number of declarations removed."""
    count = 0
    order = {}
    for i, n in enumerate(walk(body)):
        order[id(n)] = i
    in_loop = set()
    for lp in walk(body):
        if lp.get("k") in ("While", "For", "Do", "RangeFor"):
            for x in walk(lp):
                in_loop.add(id(x))
    for b in [x for x in walk(body) if x.get("k") == "Block"]:
        sts = b.get("s", [])
        for i, st in enumerate(sts):
            if not (isinstance(st, dict) and st.get("k") == "Decl" and st.get("inl") and len(st.get("vars", [])) == 1):
                continue
            v = st["vars"][0]
            src = ir.unwrap_all_casts(v.get("init")) if v.get("init") is not None else None
            if v.get("ref") or (v.get("t") or "").rstrip().endswith(("&", "*")) or "id" not in v or id(st) in in_loop:
                continue
            if not (isinstance(src, dict) and src.get("k") == "Ref" and src.get("d") == "local" and
                    (src.get("t") or "").replace("const ", "") == (v.get("t") or "").replace("const ", "")):
                continue
            if any(c_.get("k") == "Cast" and c_.get("ck") not in (None, "LValueToRValue", "NoOp") for c_ in walk(v["init"]) if c_ is not src):
                continue
            later = [x for x in walk(body) if x.get("k") == "Ref" and x.get("d") == "local" and x.get("id") == src.get("id") and
                     order.get(id(x), 0) > order[id(st)] and x is not src]
            if later:
                continue
            for x in walk(body):
                if x.get("k") == "Ref" and x.get("d") == "local" and x.get("id") == v["id"]:
                    x["id"], x["n"] = src.get("id"), src.get("n")
            sts[i] = {"k": "Null", "l": st.get("l")}
            count += 1
    return count


def merge_adjacent_result(body, facts):
    """`T x = f(..); lhs = x;` with x used nowhere else is `lhs = f(..);` - also when f has effects, provided the target is a
    plain path that neither mentions x nor is touched by evaluating the call (the right operand of an assignment is
    evaluated first).  Returns the number of merges."""
    count = 0
    uses = {}
    for n in walk(body):
        if n.get("k") == "Ref" and n.get("d") == "local":
            uses[n.get("id")] = uses.get(n.get("id"), 0) + 1
    for b in [x for x in walk(body) if x.get("k") == "Block"]:
        sts = b.get("s", [])
        out = []
        i = 0
        while i < len(sts):
            st = sts[i]
            nxt = sts[i + 1] if i + 1 < len(sts) else None
            done = False
            if isinstance(st, dict) and st.get("k") == "Decl" and len(st.get("vars", [])) == 1 and isinstance(nxt, dict):
                v = st["vars"][0]
                init = v.get("init")
                if init is not None and not v.get("ref") and "id" in v and uses.get(v["id"], 0) == 1 and not is_pure(init, facts):
                    u = unwrap(nxt)
                    lhs = rhs = None
                    if isinstance(u, dict) and u.get("k") == "Bin" and u.get("op") == "=":
                        lhs, rhs = u.get("lhs"), u.get("rhs")
                    elif isinstance(u, dict) and u.get("k") == "OpCall" and u.get("op") == "=" and len(u.get("args", [])) == 2:
                        lhs, rhs = u["args"]
                    if lhs is not None and path(lhs) is not None and not any(x.get("k") in ("Call", "MCall", "OpCall") for x in walk(lhs)):
                        r0 = ir.unwrap_all_casts(rhs)
                        hops = 0
                        while isinstance(r0, dict) and r0.get("k") == "Construct" and len(r0.get("args", [])) == 1 and hops < 3:
                            r0 = ir.unwrap_all_casts(r0["args"][0])
                            hops += 1
                        if isinstance(r0, dict) and r0.get("k") == "Ref" and r0.get("d") == "local" and r0.get("id") == v["id"] and \
                                not any(x.get("k") == "Ref" and x.get("id") == v["id"] for x in walk(lhs)):
                            keep = copy.deepcopy(init)
                            r0.clear()
                            r0.update(keep)
                            out.append(nxt)
                            i += 2
                            count += 1
                            done = True
            if not done:
                out.append(st)
                i += 1
        b["s"] = out
    return count


def eliminate_static_memos(body, f, facts, global_users):
    """N6c: a one-entry memo kept in a namespace-scope (static / thread_local) object that only this function touches

        if (!g.valid || g.k1 != a || g.k2 != b) { [g.valid = false;] g.k1 = a; g.k2 = b; g.val = E; g.valid = true; }
        ... g.val ...

    is E at its uses when E is computed from the key expressions (and constants) alone: the entry is then a function of its
    key whatever happened in earlier calls.  A key that leaves out something E reads keeps the memo in place (and visible
    to the rules).  Returns the number of memos removed."""
    if not isinstance(body, dict) or body.get("k") != "Block":
        return 0

    def gpath(e):
        u = ir.unwrap_all_casts(e)
        p_ = path(u) if isinstance(u, dict) else None
        if p_ and len(p_) == 2 and p_[0].startswith("g:"):
            return p_
        return None

    def disj(e):
        u = unwrap(e)
        if isinstance(u, dict) and u.get("k") == "Bin" and u.get("op") == "||":
            return disj(u["lhs"]) + disj(u["rhs"])
        return [u]
    removed = 0
    for B in [b for b in walk(body) if b.get("k") == "Block"]:
        sts = B.get("s", [])
        for idx, I in enumerate(list(sts)):
            if not (isinstance(I, dict) and I.get("k") == "If" and I.get("else") is None and I.get("condvar") is None):
                continue
            flag = None
            keys = {}
            ok = True
            for d in disj(I.get("cond")):
                if isinstance(d, dict) and d.get("k") == "Un" and d.get("op") == "!" and gpath(d.get("e")):
                    flag = gpath(d["e"])
                elif isinstance(d, dict) and d.get("k") == "Bin" and d.get("op") == "!=":
                    gl, gr = gpath(d.get("lhs")), gpath(d.get("rhs"))
                    if gl and not gr:
                        keys[gl] = d["rhs"]
                    elif gr and not gl:
                        keys[gr] = d["lhs"]
                    else:
                        ok = False
                else:
                    ok = False
            if not ok or flag is None or not keys or any(k_[0] != flag[0] for k_ in keys):
                continue
            G = flag[0]
            if global_users.get(G[2:], set()) - {f["key"]}:
                continue            # someone else touches the object
            stores = []
            good = True
            for t in ir.stmts(I.get("then")):
                u = unwrap(t)
                if isinstance(u, dict) and u.get("k") in ("Bin", "OpCall") and u.get("op") == "=":
                    lhs = u.get("lhs") if u.get("k") == "Bin" else (u.get("args") or [None])[0]
                    rhs = u.get("rhs") if u.get("k") == "Bin" else ((u.get("args") or [None, None])[1] if len(u.get("args", [])) > 1 else None)
                    gp = gpath(lhs)
                    if gp and gp[0] == G and rhs is not None:
                        stores.append((gp, rhs))
                        continue
                if isinstance(t, dict) and t.get("k") == "Null":
                    continue
                good = False
            if not good or not stores or stores[-1][0] != flag or ir.const_value(stores[-1][1]) not in (1, True):
                continue
            vals = {}
            for gp, rhs in stores:
                if gp == flag:
                    if ir.const_value(rhs) not in (0, 1, True, False):
                        good = False
                elif gp in keys:
                    if ir.show(ir.unwrap_all_casts(rhs)) != ir.show(ir.unwrap_all_casts(keys[gp])):
                        good = False
                else:
                    vals[gp] = rhs
            if not good or not vals or not all(k_ in [gp for gp, _ in stores] for k_ in keys):
                continue
            # the values are functions of the keys: every path they read is (part of) a key expression
            key_txt = set(ir.show(ir.unwrap_all_casts(k_)) for k_ in keys.values())
            for E in vals.values():
                for x in walk(E):
                    if x.get("k") in ("Call", "MCall", "OpCall", "Construct", "New"):
                        good = False
                    if x.get("k") in ("Ref", "Member", "This"):
                        p_ = path(x)
                        if p_ is None:
                            continue
                        # maximal paths only: a Ref below a Member is judged with the Member
                        t_ = ir.show(x)
                        if x.get("k") == "Ref" and x.get("d") == "enumconst":
                            continue
                        if not any(t_ == kt or kt.startswith(t_ + ".") or kt.startswith(t_ + "->") for kt in key_txt):
                            good = False
            if not good:
                continue
            # the flag starts out false
            rec = None
            for v in facts.vars:
                if v.get("qn", "").split("::")[-1] == G[2:].split("::")[-1]:
                    rec = facts.records.get((v.get("t") or "").replace("const ", ""))
            fi = [f_ for f_ in (rec or {}).get("fields", []) if f_["n"] == flag[1]]
            if not fi or fi[0].get("init") is None or ir.const_value(fi[0]["init"]) not in (0, False):
                continue
            # other mentions of the object: reads of the values after I, in B
            inside = set(id(x) for x in walk(I))
            bad = False
            for n, parents in ir.walk_with_parents(body):
                if id(n) in inside:
                    continue
                gp = gpath(n) if n.get("k") == "Member" else None
                if gp and gp[0] == G:
                    top = [p_ for p_ in parents if any(p_ is s_ for s_ in sts)]
                    if gp not in vals or not top or sts.index(top[0]) <= idx:
                        bad = True
                    par = parents[-1] if parents else None
                    if isinstance(par, dict) and par.get("k") == "Bin" and (par.get("op") or "").endswith("=") and par.get("op") not in ("==", "!=", "<=", ">=") and \
                            unwrap(par.get("lhs")) is n:
                        bad = True
                elif n.get("k") == "Ref" and n.get("d") == "global" and ("g:" + (n.get("qn") or n.get("n") or "")).endswith(G[2:]) and \
                        not (parents and parents[-1].get("k") == "Member"):
                    bad = True          # the object as a whole (address taken, passed on)
            # the key expressions are not written in the function
            key_roots = set()
            for k_ in keys.values():
                for x in walk(k_):
                    if x.get("k") in ("Ref", "Member") and path(x):
                        key_roots.add(path(x)[0])
            for n in walk(body):
                for wp, how in node_writes(n, facts, {}):
                    if wp and wp[0] in key_roots and not wp[0].startswith("g:"):
                        bad = True
            if bad:
                continue

            def rep(n):
                if isinstance(n, list):
                    return [rep(y) for y in n]
                if not isinstance(n, dict):
                    return n
                if n.get("k") == "Member":
                    gp = gpath(n)
                    if gp in vals:
                        return copy.deepcopy(vals[gp])
                return {kk: (rep(v) if isinstance(v, (dict, list)) else v) for kk, v in n.items()}
            B["s"] = sts[:idx] + [rep(s_) for s_ in sts[idx + 1:]]
            removed += 1
            break
    return removed


_SROA_COUNTER = [300000]


def scalar_replace_aggregates(body, facts):
    """N8: a local of a plain struct type (no bases, no member functions) that is only ever used field by field is the set of
    its fields: `Counts c; c.qr += n; print(c.qr)` becomes `c.qr` as a local of its own (initialised from the default member
    initialiser or the matching element of a braced initialiser).  Returns the number of locals replaced."""
    count = 0
    decls = []
    for n in walk(body):
        if n.get("k") == "Decl" and len(n.get("vars", [])) == 2 and n["vars"][0].get("other") and n["vars"][1].get("n"):
            n["vars"] = [n["vars"][1]]        # `struct T {..} x{..};`: the type's declaration is not a variable
        if n.get("k") == "Decl" and len(n.get("vars", [])) == 1:
            v = n["vars"][0]
            t = (v.get("t") or "").replace("const ", "")
            r = facts.records.get(t)
            if r is None or r.get("bases") or r.get("polymorphic") or not r.get("fields") or v.get("ref") or t.endswith(("&", "*")):
                continue
            init = unwrap(v.get("init")) if v.get("init") is not None else None
            elems = None
            user_ctor = isinstance(init, dict) and init.get("k") == "Construct" and not init.get("copymove") and helper_type(facts, t) and \
                any(c_.get("cls") == t and c_.get("ctor") and c_["sig"] == (init.get("callee") or {}).get("sig", []) and (c_.get("inits") or ir.stmts(c_.get("body_raw", c_.get("body"))))
                    for c_ in list(facts.functions.values()) + list(getattr(facts, "absorbed", {}).values()))
            if init is None or (isinstance(init, dict) and init.get("k") == "Construct" and not init.get("args") and not init.get("copymove") and not user_ctor):
                elems = None
            elif isinstance(init, dict) and init.get("k") == "InitList" and len(init.get("c", [])) == len(r["fields"]):
                elems = init["c"]
            elif isinstance(init, dict) and init.get("k") == "Construct" and not init.get("copymove") and helper_type(facts, t):
                # a constructor that only initialises members from its parameters: `Guard g(block)` with `: m_b(block), m_armed(false)`
                cal = init.get("callee") or {}
                cands = [c_ for c_ in facts.functions.values() if c_.get("cls") == t and c_.get("ctor") and c_["sig"] == cal.get("sig", [])]
                cands = cands[:1] if cands and len(set((c_.get("file"), c_.get("line")) for c_ in cands)) == 1 else cands
                if len(cands) != 1 or ir.stmts(cands[0].get("body_raw", cands[0].get("body"))):
                    continue
                ctor = cands[0]
                pidx = {p_["id"]: i_ for i_, p_ in enumerate(ctor.get("params", []))}

                def sub_(e_):
                    if isinstance(e_, list):
                        return [sub_(x_) for x_ in e_]
                    if not isinstance(e_, dict):
                        return e_
                    if e_.get("k") == "Ref" and e_.get("d") == "param" and e_.get("id") in pidx and pidx[e_["id"]] < len(init.get("args", [])):
                        return copy.deepcopy(init["args"][pidx[e_["id"]]])
                    return {kk: (sub_(vv) if isinstance(vv, (dict, list)) else vv) for kk, vv in e_.items()}
                by_member = {i_.get("member"): i_.get("init") for i_ in ctor.get("inits", []) or [] if i_.get("member") and i_.get("init") is not None}
                elems = []
                okc = True
                for f_ in r["fields"]:
                    if f_["n"] in by_member:
                        elems.append(sub_(by_member[f_["n"]]))
                    elif f_.get("init") is not None:
                        elems.append(copy.deepcopy(f_["init"]))
                    elif "std::" in (f_.get("t") or "") and not (f_.get("t") or "").endswith(("*", "&")):
                        elems.append(None)          # a library object left to its default constructor
                    else:
                        okc = False
                if not okc:
                    continue
            else:
                continue
            decls.append((n, v, r, elems, init is not None))
    if not decls:
        return 0
    parents = {}
    for n, ps in ir.walk_with_parents(body):
        if n.get("k") == "Ref" and n.get("d") == "local":
            # the field access may sit around value-preserving wrappers (`T(x).f` after a by-value return was expanded)
            chain = list(ps)
            while chain and (chain[-1].get("k") == "Cast" or (chain[-1].get("k") == "Construct" and chain[-1].get("copymove") and len(chain[-1].get("args", [])) == 1)):
                chain.pop()
            parents.setdefault(n.get("id"), []).append((n, chain[-1] if chain else None))
    # `x = T{a, b};` as a statement is `x.f1 = a; x.f2 = b;`
    by_id = {v.get("id"): r for d, v, r, elems, constructed in decls}
    for b in walk(body):
        if b.get("k") != "Block":
            continue
        out = []
        changed = False
        for st in b.get("s", []):
            u = unwrap(st) if isinstance(st, dict) else None
            if isinstance(u, dict) and u.get("k") == "Bin" and u.get("op") == "=":
                l = unwrap(u.get("lhs"))
                rr = ir.unwrap_all_casts(u.get("rhs"))
                while isinstance(rr, dict) and rr.get("k") == "Construct" and rr.get("copymove") and len(rr.get("args", [])) == 1:
                    rr = ir.unwrap_all_casts(rr["args"][0])
                if isinstance(l, dict) and l.get("k") == "Ref" and l.get("d") == "local" and l.get("id") in by_id and \
                        isinstance(rr, dict) and rr.get("k") == "Ref" and rr.get("d") == "local" and rr.get("id") in by_id and \
                        by_id[rr["id"]] is by_id[l["id"]] and rr.get("id") != l.get("id"):
                    # `x = y;` between two such locals of one type is the member-wise copy
                    for f_ in by_id[l["id"]]["fields"]:
                        out.append({"k": "Bin", "op": "=", "l": u.get("l"), "t": f_["t"],
                                    "lhs": {"k": "Member", "field": True, "n": f_["n"], "t": f_["t"], "l": u.get("l"), "base": copy.deepcopy(l)},
                                    "rhs": {"k": "Member", "field": True, "n": f_["n"], "t": f_["t"], "l": u.get("l"), "base": copy.deepcopy(rr)}})
                    changed = True
                    continue
                if isinstance(l, dict) and l.get("k") == "Ref" and l.get("d") == "local" and l.get("id") in by_id and \
                        isinstance(rr, dict) and rr.get("k") == "InitList" and len(rr.get("c", [])) == len(by_id[l["id"]]["fields"]):
                    for f_, e_ in zip(by_id[l["id"]]["fields"], rr["c"]):
                        out.append({"k": "Bin", "op": "=", "l": u.get("l"), "t": f_["t"],
                                    "lhs": {"k": "Member", "field": True, "n": f_["n"], "t": f_["t"], "l": u.get("l"), "base": copy.deepcopy(l)},
                                    "rhs": e_})
                    changed = True
                    continue
            out.append(st)
        if changed:
            b["s"] = out
    parents = {}
    for n, ps in ir.walk_with_parents(body):
        if n.get("k") == "Ref" and n.get("d") == "local":
            chain = list(ps)
            while chain and (chain[-1].get("k") == "Cast" or (chain[-1].get("k") == "Construct" and chain[-1].get("copymove") and len(chain[-1].get("args", [])) == 1)):
                chain.pop()
            parents.setdefault(n.get("id"), []).append((n, chain[-1] if chain else None))
    for d, v, r, elems, constructed in decls:
        uses = parents.get(v.get("id"), [])
        if not uses or not all(isinstance(p_, dict) and p_.get("k") == "Member" and p_.get("field") and
                               any(x_ is u_ for x_ in walk(p_.get("base"))) and ir.unwrap_all_casts(unwrap(p_.get("base"))) is not None for u_, p_ in uses):
            continue
        names = [f_["n"] for f_ in r["fields"]]
        if not all(p_.get("n") in names for _, p_ in uses):
            continue
        ids = {}
        new_vars = []
        for i, f_ in enumerate(r["fields"]):
            _SROA_COUNTER[0] += 1
            ids[f_["n"]] = _SROA_COUNTER[0]
            fi = None
            if elems is not None:
                fi = copy.deepcopy(elems[i]) if elems[i] is not None else None
            elif constructed and f_.get("init") is not None:
                fi = copy.deepcopy(f_["init"])
            nv = {"n": "%s.%s" % (v.get("n"), f_["n"]), "id": ids[f_["n"]], "t": f_["t"], "tw": f_.get("tw", f_["t"]), "l": v.get("l")}
            if fi is not None:
                nv["init"] = fi
            if (f_.get("t") or "").endswith("&") or f_.get("ref"):
                nv["ref"] = True
            new_vars.append({"k": "Decl", "l": d.get("l"), "vars": [nv]})
        for u_, p_ in uses:
            fn_ = p_["n"]
            t_ = p_.get("t")
            for key in list(p_.keys()):
                del p_[key]
            p_.update({"k": "Ref", "d": "local", "id": ids[fn_], "n": "%s.%s" % (v.get("n"), fn_), "t": t_, "l": u_.get("l")})
        d["k"] = "Block"
        d["s"] = new_vars
        d["sroa"] = True
        d.pop("vars", None)
        count += 1
    if count:
        # splice the declaration groups into their parent blocks (a Block node in a statement list would open a scope)
        for b in walk(body):
            if b.get("k") == "Block" and any(isinstance(x, dict) and x.get("sroa") for x in b.get("s", [])):
                out = []
                for x in b["s"]:
                    if isinstance(x, dict) and x.get("sroa"):
                        out.extend(x["s"])
                    else:
                        out.append(x)
                b["s"] = out
    return count

# ------------------------------------------------------------------------------------------------ N9: local flags

_THROWING = ("Call", "MCall", "OpCall", "Construct", "Throw", "New")


def fold_local_flags(body, facts):
    """N9: flow-sensitive constant propagation for bool locals that are only ever tested and assigned constants-or-values at
    statement level (`bool armed = false; ...; armed = true; if (armed) ..`).  In a handler a flag has the value it had when
    the try block was entered if every store to it in the try block is a statement of that block with nothing that can throw
    after it (the guard's own action, which runs in a destructor, cannot throw into the handler).  Returns the number of
    reads replaced by their value."""
    if any(n.get("k") in ("Goto", "Label") for n in walk(body)):
        return 0
    cands = {}
    for n in walk(body):
        if n.get("k") == "Decl":
            for v in n.get("vars", []):
                if (v.get("t") or "").replace("const ", "") == "bool" and not v.get("ref") and "id" in v and not v.get("static"):
                    cands[v["id"]] = v
    if not cands:
        return 0
    # `return flag ? a : b;` is `if (flag) return a; else return b;` - the statement form is what jump threading works on
    for b in walk(body):
        if b.get("k") != "Block":
            continue
        for i_, st in enumerate(b.get("s", [])):
            if not (isinstance(st, dict) and st.get("k") == "Return" and st.get("e") is not None):
                continue
            chain = []
            e = st["e"]
            while isinstance(e, dict) and e.get("k") in ("Cast", "Paren") and isinstance(e.get("e"), dict):
                chain.append(e)
                e = e["e"]
            if not (isinstance(e, dict) and e.get("k") == "Cond"):
                continue
            c = ir.unwrap_all_casts(e.get("c"))
            while isinstance(c, dict) and c.get("k") == "Un" and c.get("op") == "!":
                c = ir.unwrap_all_casts(c.get("e"))
            if not (isinstance(c, dict) and c.get("k") == "Ref" and c.get("d") == "local" and c.get("id") in cands):
                continue

            def arm(x):
                out = x
                for w in reversed(chain):
                    w2 = dict(w)
                    w2["e"] = out
                    w2.pop("cv", None)
                    out = w2
                return {"k": "Block", "l": st.get("l"), "s": [{"k": "Return", "l": st.get("l"), "e": out}]}
            b["s"][i_] = {"k": "If", "l": st.get("l"), "cond": e["c"], "then": arm(e.get("a")), "else": arm(e.get("b"))}
    # every mention must be a plain read in a boolean context or the target of a statement-level `=`
    stmt_stores = {}
    bad = set()
    in_lambda = set()
    for n in walk(body):
        if n.get("k") == "Lambda":
            for x in walk(n):
                if x.get("k") == "Ref" and x.get("d") == "local" and x.get("id") in cands:
                    in_lambda.add(x["id"])
    bad |= in_lambda
    stmt_nodes = set()
    for b in walk(body):
        if b.get("k") == "Block":
            for st in b.get("s", []):
                u = unwrap(st) if isinstance(st, dict) else None
                if isinstance(u, dict) and u.get("k") == "Bin" and u.get("op") == "=":
                    l = unwrap(u.get("lhs"))
                    if isinstance(l, dict) and l.get("k") == "Ref" and l.get("d") == "local" and l.get("id") in cands:
                        stmt_nodes.add(id(l))
                        stmt_stores.setdefault(l["id"], []).append(u)
        for key in ("then", "else", "body"):
            st = b.get(key) if b.get("k") in ("If", "While", "For", "Do", "RangeFor") else None
            u = unwrap(st) if isinstance(st, dict) else None
            if isinstance(u, dict) and u.get("k") == "Bin" and u.get("op") == "=":
                l = unwrap(u.get("lhs"))
                if isinstance(l, dict) and l.get("k") == "Ref" and l.get("d") == "local" and l.get("id") in cands:
                    stmt_nodes.add(id(l))
                    stmt_stores.setdefault(l["id"], []).append(u)
    for n, ps in ir.walk_with_parents(body):
        if n.get("k") == "Ref" and n.get("d") == "local" and n.get("id") in cands and id(n) not in stmt_nodes:
            chain = list(ps)
            while chain and chain[-1].get("k") in ("Cast", "Paren"):
                chain.pop()
            par = chain[-1] if chain else None
            if par is None:
                bad.add(n["id"])
            elif par.get("k") in ("If", "Cond", "Return", "Decl", "While", "For", "Do"):
                pass
            elif par.get("k") == "Un" and par.get("op") == "!":
                pass
            elif par.get("k") == "Bin" and par.get("op") in ("&&", "||", "==", "!="):
                pass
            elif par.get("k") == "Bin" and par.get("op") == "=" and any(x is n for x in walk(par.get("rhs"))):
                pass
            else:
                bad.add(n["id"])
    cands = {i: v for i, v in cands.items() if i not in bad}
    if not cands:
        return 0
    count = [0]

    def ev(e):
        e = ir.unwrap_all_casts(e)
        if not isinstance(e, dict):
            return None
        k = e.get("k")
        if k == "Lit" and isinstance(e.get("v"), bool):
            return e["v"]
        cv = ir.const_value(e)
        if cv is not None and not isinstance(cv, str) and (e.get("t") or "").replace("const ", "") == "bool":
            return bool(cv)
        if k == "Un" and e.get("op") == "!":
            v = ev(e.get("e"))
            return None if v is None else not v
        if k == "Bin" and e.get("op") in ("&&", "||"):
            a, b = ev(e.get("lhs")), ev(e.get("rhs"))
            if e["op"] == "&&":
                if a is False or b is False:
                    return False if a is False or is_pure(e.get("lhs"), facts) else None
                return True if a is True and b is True else None
            if a is True or b is True:
                return True if a is True or is_pure(e.get("lhs"), facts) else None
            return False if a is False and b is False else None
        return None

    def subst(e, env):
        if isinstance(e, list):
            for x in e:
                subst(x, env)
            return
        if not isinstance(e, dict) or e.get("k") == "Lambda":
            return
        if e.get("k") == "Ref" and e.get("d") == "local" and e.get("id") in env and id(e) not in stmt_nodes:
            val = env[e["id"]]
            l = e.get("l")
            e.clear()
            e.update({"k": "Lit", "v": val, "t": "bool", "cv": int(val), "l": l})
            count[0] += 1
            return
        for c in ir.children(e):
            subst(c, env)

    def stored_in(n):
        out = set()
        for x in walk(n):
            if x.get("k") == "Bin" and x.get("op") == "=":
                l = unwrap(x.get("lhs"))
                if isinstance(l, dict) and l.get("k") == "Ref" and l.get("d") == "local" and l.get("id") in cands:
                    out.add(l["id"])
        return out

    def merge(envs):
        envs = [e for e in envs if e is not None]
        if not envs:
            return None
        out = {}
        for i, v in envs[0].items():
            if all(i in e and e[i] == v for e in envs[1:]):
                out[i] = v
        return out

    def can_throw(st):
        return any(x.get("k") in _THROWING and not x.get("guard_action") for x in _walk_skipping_actions(st))

    def handler_env(env0, tbody):
        sts = ir.stmts(tbody)
        env = dict(env0)
        for i in stored_in(tbody):
            first = None
            ok = True
            for idx, st in enumerate(sts):
                u = unwrap(st) if isinstance(st, dict) else None
                top = isinstance(u, dict) and u.get("k") == "Bin" and u.get("op") == "=" and \
                    isinstance(unwrap(u.get("lhs")), dict) and unwrap(u["lhs"]).get("id") == i and unwrap(u["lhs"]).get("d") == "local"
                if top:
                    if first is None:
                        first = idx
                    if can_throw(u.get("rhs")):
                        ok = False
                elif i in stored_in(st):
                    ok = False
            if ok and first is not None and not any(can_throw(st) for st in sts[first + 1:]):
                continue
            env.pop(i, None)
        return env

    def size(n):
        return sum(1 for _ in walk(n))

    def reads_cand(e):
        return [x["id"] for x in walk(e) if x.get("k") == "Ref" and x.get("d") == "local" and x.get("id") in cands and id(x) not in stmt_nodes]

    def block(sts, env):
        i = 0
        while i < len(sts):
            st = sts[i]
            if env is None:
                # unreachable rest: leave as it is
                return None
            # jump threading: `if (c) {..; f = true;} else {..; f = false;}  if (f) X  rest` -- the statements after the
            # if/else move into both branches when the flag they start by testing is a different constant at the end of each
            tail = sts[i + 1:]
            if isinstance(st, dict) and st.get("k") == "If" and st.get("else") is not None and st.get("then") is not None and \
                    st.get("init") is None and st.get("condvar") is None and tail and isinstance(tail[0], dict) and \
                    tail[0].get("k") == "If" and isinstance(tail[0].get("cond"), dict) and sum(size(t_) for t_ in tail) <= 80 and \
                    not any(x.get("k") in ("Label", "Case", "Default") for t_ in tail for x in walk(t_)):
                tested = [v_ for v_ in reads_cand(tail[0]["cond"]) if v_ not in env]
                if tested:
                    saved = count[0]
                    probe = copy.deepcopy(st)
                    # (the probe shares no nodes with the tree: stmt_nodes are looked up by identity, so re-register its stores)
                    extra = _register_stores(probe, cands, stmt_nodes)
                    e1 = stmt(probe["then"], dict(env))
                    e2 = stmt(probe["else"], dict(env))
                    for x_ in extra:
                        stmt_nodes.discard(x_)
                    count[0] = saved
                    def stores_top(br, v_):
                        for x_ in ir.stmts(br):
                            u_ = unwrap(x_) if isinstance(x_, dict) else None
                            if isinstance(u_, dict) and u_.get("k") == "Bin" and u_.get("op") == "=":
                                l_ = unwrap(u_.get("lhs"))
                                if isinstance(l_, dict) and l_.get("k") == "Ref" and l_.get("d") == "local" and l_.get("id") == v_:
                                    return True
                        return False
                    if e1 is not None and e2 is not None and any(
                            (v_ in e1 and v_ in e2 and e1[v_] != e2[v_]) or
                            ((v_ in e1) != (v_ in e2) and stores_top(st["then"], v_) and stores_top(st["else"], v_)) for v_ in tested):
                        t2 = copy.deepcopy(tail)
                        _register_stores({"k": "Block", "s": t2}, cands, stmt_nodes)
                        st["then"] = {"k": "Block", "l": st["then"].get("l"), "s": ir.stmts(st["then"]) + t2}
                        st["else"] = {"k": "Block", "l": st["else"].get("l"), "s": ir.stmts(st["else"]) + tail}
                        del sts[i + 1:]
                        count[0] += 1
            env = stmt(st, env)
            i += 1
        return env

    def stmt(st, env):
        if not isinstance(st, dict):
            return env
        k = st.get("k")
        if k == "Block":
            return block(st.get("s", []), env)
        if k == "Decl":
            for v in st.get("vars", []):
                if v.get("init") is not None:
                    subst(v["init"], env)
                if v.get("id") in cands:
                    val = ev(v["init"]) if v.get("init") is not None else None
                    if val is None:
                        env.pop(v["id"], None)
                    else:
                        env[v["id"]] = val
            return env
        if k == "If":
            if st.get("init") is not None or st.get("condvar") is not None:
                for i in stored_in(st):
                    env.pop(i, None)
                return env
            subst(st["cond"], env)
            c = ev(st["cond"])
            if c is not None:
                taken = st.get("then") if c else st.get("else")
                return stmt(taken, env) if taken is not None else env
            # a plain test of a flag tells its value inside the branches
            et, ee = dict(env), dict(env)
            uc = ir.unwrap_all_casts(st["cond"])
            neg = False
            if isinstance(uc, dict) and uc.get("k") == "Un" and uc.get("op") == "!":
                uc, neg = ir.unwrap_all_casts(uc.get("e")), True
            if isinstance(uc, dict) and uc.get("k") == "Ref" and uc.get("d") == "local" and uc.get("id") in cands and id(uc) not in stmt_nodes:
                et[uc["id"]] = not neg
                ee[uc["id"]] = neg
            e1 = stmt(st.get("then"), et) if st.get("then") is not None else et
            e2 = stmt(st.get("else"), ee) if st.get("else") is not None else ee
            return merge([e1, e2])
        if k in ("While", "For", "Do", "RangeFor", "Switch"):
            killed = stored_in(st)
            env = {i: v for i, v in env.items() if i not in killed}
            for key in ("init", "cond", "inc", "range"):
                if isinstance(st.get(key), (dict, list)):
                    if key == "init" and isinstance(st[key], dict) and st[key].get("k") == "Decl":
                        stmt(st[key], dict(env))
                    else:
                        subst(st[key], env)
            if k == "Switch":
                for c in st.get("cases", []) or []:
                    block(ir.stmts(c.get("body")) if isinstance(c.get("body"), dict) else (c.get("s") or []), dict(env))
                if isinstance(st.get("body"), dict):
                    stmt(st["body"], dict(env))
            elif isinstance(st.get("body"), dict):
                stmt(st["body"], dict(env))
            return dict(env)
        if k == "Try":
            env0 = dict(env)
            eb = stmt(st["body"], dict(env0))
            outs = [eb]
            for h in st.get("handlers", []):
                outs.append(stmt(h["body"], handler_env(env0, st["body"])))
            return merge(outs)
        if k in ("Return", "Throw"):
            subst(st, env)
            return None
        if k in ("Break", "Continue"):
            return None
        u = unwrap(st)
        if isinstance(u, dict) and u.get("k") == "Bin" and u.get("op") == "=":
            l = unwrap(u.get("lhs"))
            if isinstance(l, dict) and l.get("k") == "Ref" and l.get("d") == "local" and l.get("id") in cands and id(l) in stmt_nodes:
                subst(u["rhs"], env)
                val = ev(u["rhs"])
                if val is None:
                    env.pop(l["id"], None)
                else:
                    env[l["id"]] = val
                return env
        subst(st, env)
        for i in stored_in(st):
            env.pop(i, None)
        return env

    # statements inside a loop body reached through `then`/`else`/`body` keys that are not Blocks are handled by stmt()
    block(ir.stmts(body), {})
    if not count[0]:
        return 0
    # fold what became constant, then drop flags nobody reads any more
    fold_constants(body, facts.enums)
    _fold_bool_conditions(body, ev)
    reads = set()
    for n in walk(body):
        if n.get("k") == "Ref" and n.get("d") == "local" and n.get("id") in cands and id(n) not in stmt_nodes:
            reads.add(n["id"])
    _drop_rethrow_only_tries(body)
    dead = set(i for i in cands if i not in reads and not any(can_throw(u.get("rhs")) for u in stmt_stores.get(i, [])) and
               (cands[i].get("init") is None or not can_throw(cands[i]["init"])))
    if dead:
        _drop_flag(body, dead)
    return count[0]


def _register_stores(n, cands, stmt_nodes):
    """statement-level `flag = ..` targets inside n (a copy of part of the tree) join stmt_nodes; returns the ids added"""
    added = []
    for b in walk(n):
        lists = []
        if b.get("k") == "Block":
            lists.append(b.get("s", []))
        for key in ("then", "else", "body"):
            if b.get("k") in ("If", "While", "For", "Do", "RangeFor") and isinstance(b.get(key), dict):
                lists.append([b[key]])
        for lst in lists:
            for st in lst:
                u = unwrap(st) if isinstance(st, dict) else None
                if isinstance(u, dict) and u.get("k") == "Bin" and u.get("op") == "=":
                    l = unwrap(u.get("lhs"))
                    if isinstance(l, dict) and l.get("k") == "Ref" and l.get("d") == "local" and l.get("id") in cands and id(l) not in stmt_nodes:
                        stmt_nodes.add(id(l))
                        added.append(id(l))
    return added


def split_stores(body, facts):
    """N10: a scalar local that is stored at statement level and then read only further down the same block (until the next such
    store) is a fresh single-assignment local per store: `x = a; use(x);` in one branch and `x = b; use(x);` in another
    become `T x1 = a; use(x1);` / `T x2 = b; use(x2);`, which forward substitution then resolves.  Only when every read of
    the local is covered that way and its address is never taken.  Returns the number of locals split."""
    decls = {}
    for n in walk(body):
        if n.get("k") == "Decl":
            for v in n.get("vars", []):
                t = (v.get("t") or "").replace("const ", "")
                if "id" in v and not v.get("ref") and not v.get("static") and not t.endswith(("&", "*", "]")) and \
                        (t in ("bool", "char", "int", "unsigned int", "long", "unsigned long", "unsigned char", "unsigned short", "short", "size_t") or
                         (facts.enums and t in facts.enums) or t.startswith(("uint", "int")) or t in ("std::size_t", "CDNS::index_t")):
                    decls[v["id"]] = (n, v)
    if not decls:
        return 0
    # disqualify: address taken, captured, ++/--/op=, by-reference arguments, nested (non-statement) stores
    bad = set()
    stores = {}         # id -> [(block, index, node)]
    store_lhs = set()
    for b in walk(body):
        if b.get("k") == "Block":
            for i, st in enumerate(b.get("s", [])):
                u = unwrap(st) if isinstance(st, dict) else None
                if isinstance(u, dict) and u.get("k") == "Bin" and u.get("op") == "=":
                    l = unwrap(u.get("lhs"))
                    if isinstance(l, dict) and l.get("k") == "Ref" and l.get("d") == "local" and l.get("id") in decls:
                        stores.setdefault(l["id"], []).append((b, i, u))
                        store_lhs.add(id(l))
    for n, ps in ir.walk_with_parents(body):
        if n.get("k") == "Lambda":
            for x in walk(n):
                if x.get("k") == "Ref" and x.get("d") == "local" and x.get("id") in decls:
                    bad.add(x["id"])
        if not (n.get("k") == "Ref" and n.get("d") == "local" and n.get("id") in decls) or id(n) in store_lhs:
            continue
        chain = list(ps)
        while chain and chain[-1].get("k") in ("Cast", "Paren"):
            chain.pop()
        par = chain[-1] if chain else None
        if par is None:
            continue
        if par.get("k") == "Un" and par.get("op") in ("&", "pre++", "post++", "pre--", "post--"):
            bad.add(n["id"])
        elif par.get("k") == "Bin" and (par.get("op") or "").endswith("=") and par["op"] not in ("==", "!=", "<=", ">=") and \
                any(x is n for x in walk(par.get("lhs"))):
            bad.add(n["id"])
        elif par.get("k") in ("Call", "MCall", "OpCall", "Construct"):
            sig = (par.get("callee") or {}).get("sig") or []
            args = par.get("args", [])
            if par.get("k") == "OpCall" and (par.get("callee") or {}).get("cls") and args:
                args = args[1:]
            for a_, t_ in zip(args, sig):
                if any(x is n for x in walk(a_)) and t_.endswith("&") and not t_.startswith("const "):
                    bad.add(n["id"])
            if not (par.get("callee") or {}).get("sig") and par.get("k") != "Construct":
                bad.add(n["id"])
    count = 0
    for vid, sl in stores.items():
        if vid in bad:
            continue
        dnode, v = decls[vid]
        if v.get("init") is not None and not is_pure(v["init"], facts):
            continue
        # regions
        covered = set()
        regions = []
        ok = True
        for b, i, u in sl:
            sts = b.get("s", [])
            end = len(sts)
            for j in range(i + 1, len(sts)):
                if any(bb is b and jj == j for bb, jj, _ in sl):
                    end = j
                    break
            region = sts[i + 1:end]
            # no store to the local nested inside the region
            if any(any(x is uu for x in walk(r_)) for r_ in region for _, _, uu in sl):
                ok = False
                break
            reads = [x for r_ in region for x in walk(r_) if x.get("k") == "Ref" and x.get("d") == "local" and x.get("id") == vid]
            # reads inside a loop that also contains ... (the region is straight-line below the store: loops inside it are fine,
            # the store dominates them and nothing in them stores)
            for x in reads:
                covered.add(id(x))
            regions.append((b, i, u, reads))
            # the right-hand side must not read the local itself
            if any(x.get("k") == "Ref" and x.get("d") == "local" and x.get("id") == vid for x in walk(u.get("rhs"))):
                ok = False
                break
        if not ok:
            continue
        all_reads = [x for x in walk(body) if x.get("k") == "Ref" and x.get("d") == "local" and x.get("id") == vid and id(x) not in store_lhs]
        if any(id(x) not in covered for x in all_reads):
            continue
        # a store inside a loop whose region ends with the loop body while the local is read ... (covered: all reads are in regions)
        for b, i, u, reads in regions:
            _SROA_COUNTER[0] += 1
            nid = _SROA_COUNTER[0]
            if not reads and is_pure(u.get("rhs"), facts):
                b["s"][i] = {"k": "Null", "l": u.get("l")}
                continue
            nv = {"n": v.get("n"), "id": nid, "t": v.get("t"), "tw": v.get("tw", v.get("t")), "l": u.get("l"), "init": u["rhs"]}
            b["s"][i] = {"k": "Decl", "l": u.get("l"), "vars": [nv]}
            for x in reads:
                x["id"] = nid
        # the original declaration goes
        if len(dnode.get("vars", [])) == 1:
            dnode["k"] = "Null"
            dnode.pop("vars", None)
        else:
            dnode["vars"] = [y for y in dnode["vars"] if y.get("id") != vid]
        count += 1
    return count


def _tidy(body):
    """after threading: empty statements go, and so does what follows a statement that always leaves its block"""
    for b in walk(body):
        if b.get("k") == "Block":
            out = []
            for x in b.get("s", []):
                if isinstance(x, dict) and x.get("k") == "Null":
                    continue
                out.append(x)
                if isinstance(x, dict) and ir.always_leaves(x) and not any(y.get("k") in ("Label", "Case", "Default") for z in b["s"] for y in walk(z)):
                    break
            b["s"] = out


def _walk_skipping_actions(n):
    if isinstance(n, list):
        for x in n:
            yield from _walk_skipping_actions(x)
        return
    if not isinstance(n, dict) or n.get("guard_action"):
        return
    yield n
    for c in ir.children(n):
        yield from _walk_skipping_actions(c)


def _drop_rethrow_only_tries(body):
    """`try { B } catch (...) { throw; }` (what is left of a guard that was dismissed before anything could throw) is B"""
    def only_rethrow(h):
        sts = [x for x in ir.stmts(h.get("body")) if not (isinstance(x, dict) and x.get("k") == "Null")]
        return len(sts) == 1 and sts[0].get("k") == "Throw" and sts[0].get("rethrow")
    for b in walk(body):
        if b.get("k") != "Block":
            continue
        out = []
        for x in b.get("s", []):
            if isinstance(x, dict) and x.get("k") == "Try" and x.get("synthetic") and x.get("handlers") and all(only_rethrow(h) for h in x["handlers"]):
                out.extend(ir.stmts(x["body"]))
            else:
                out.append(x)
        b["s"] = out


def _fold_bool_conditions(body, ev):
    for n in list(walk(body)):
        if n.get("k") == "If" and isinstance(n.get("cond"), dict) and "condvar" not in n and "init" not in n:
            c = ev(n["cond"])
            if c is not None:
                taken = n.get("then") if c else n.get("else")
                keep = copy.deepcopy(taken) if isinstance(taken, dict) else {"k": "Null", "l": n.get("l")}
                n.clear()
                n.update(keep)


def _drop_flag(n, dead):
    if isinstance(n, dict):
        for key, v in list(n.items()):
            if key == "s" and isinstance(v, list):
                out = []
                for x in v:
                    if isinstance(x, dict) and x.get("k") == "Decl" and x.get("vars") and all(y.get("id") in dead for y in x["vars"]):
                        continue
                    u = unwrap(x) if isinstance(x, dict) else None
                    if isinstance(u, dict) and u.get("k") == "Bin" and u.get("op") == "=":
                        l = unwrap(u.get("lhs"))
                        if isinstance(l, dict) and l.get("k") == "Ref" and l.get("d") == "local" and l.get("id") in dead:
                            continue
                    _drop_flag(x, dead)
                    out.append(x)
                n[key] = out
            elif isinstance(v, (dict, list)):
                _drop_flag(v, dead)
    elif isinstance(n, list):
        for x in n:
            _drop_flag(x, dead)


def merge_decl_with_first_store(body):
    """`T x = <constant or nothing>; ...(x not mentioned)...; x = e;` in one block is `...; T x = e;`: the declaration moves down to
    the store that gives the local its first real value (only scalar locals; e does not mention x)."""
    count = 0
    for b in [x for x in walk(body) if x.get("k") == "Block"]:
        changed = True
        while changed:
            changed = False
            sts = b.get("s", [])
            for i, st in enumerate(sts):
                if not (isinstance(st, dict) and st.get("k") == "Decl" and len(st.get("vars", [])) == 1):
                    continue
                v = st["vars"][0]
                if v.get("ref") or "id" not in v or (v.get("t") or "").startswith("CDNS::") or "std::" in (v.get("t") or ""):
                    continue
                if v.get("init") is not None and ir.const_value(v["init"]) is None:
                    continue

                def mentions(n):
                    return any(x.get("k") == "Ref" and x.get("d") == "local" and x.get("id") == v["id"] for x in walk(n))
                for j in range(i + 1, len(sts)):
                    sj = sts[j]
                    if not isinstance(sj, dict) or not mentions(sj):
                        continue
                    u = unwrap(sj)
                    if isinstance(u, dict) and u.get("k") == "Bin" and u.get("op") == "=" and \
                            unwrap(u.get("lhs")).get("k") == "Ref" and unwrap(u["lhs"]).get("id") == v["id"] and not mentions(u.get("rhs")):
                        nv = dict(v)
                        nv["init"] = u["rhs"]
                        nv["l"] = u.get("l", v.get("l"))
                        new = {"k": "Decl", "l": u.get("l"), "vars": [nv]}
                        b["s"] = sts[:i] + sts[i + 1:j] + [new] + sts[j + 1:]
                        count += 1
                        changed = True
                    break
                if changed:
                    break
    return count


def resolve_optional_this(body):
    """A pointer local that is `cond ? X : nullptr` and never reassigned (`G g{flag ? this : nullptr}` after N8): testing the
    pointer is testing cond, and where it is dereferenced it is X (the program only dereferences it where it is non-null)."""
    count = 0
    for d in list(walk(body)):
        if d.get("k") != "Decl" or len(d.get("vars", [])) != 1:
            continue
        v = d["vars"][0]
        init = unwrap(v.get("init")) if v.get("init") is not None else None
        if not (isinstance(init, dict) and init.get("k") == "Cond" and (v.get("t") or "").endswith("*") and "id" in v):
            continue
        a, b = ir.unwrap_all_casts(init.get("a")), ir.unwrap_all_casts(init.get("b"))
        def is_null(x):
            return isinstance(x, dict) and (x.get("null") or ir.const_value(x) == 0)
        if is_null(b) and not is_null(a) and (a.get("k") == "This" or path(a) is not None):
            X, c = init["a"], init["c"]
            neg = False
        elif is_null(a) and not is_null(b) and (b.get("k") == "This" or path(b) is not None):
            X, c = init["b"], init["c"]
            neg = True
        else:
            continue
        uses = []
        okk = True
        for n, parents in ir.walk_with_parents(body):
            if n.get("k") == "Ref" and n.get("d") == "local" and n.get("id") == v["id"]:
                par = parents[-1] if parents else None
                # skip implicit casts between the use and its context
                chain = list(parents)
                while chain and chain[-1].get("k") == "Cast":
                    chain.pop()
                par = chain[-1] if chain else None
                if par is None:
                    okk = False
                elif par.get("k") == "If" and any(x is n for x in walk(par.get("cond"))) and unwrap(par.get("cond")) is n or \
                        (par.get("k") == "If" and ir.unwrap_all_casts(par.get("cond")) is n):
                    uses.append(("test", par, n))
                elif par.get("k") == "Un" and par.get("op") == "!":
                    uses.append(("not", par, n))
                elif par.get("k") == "Member" or (par.get("k") == "MCall" and any(x is n for x in walk(par.get("recv")))):
                    uses.append(("deref", par, n))
                elif par.get("k") == "Bin" and par.get("op", "").endswith("=") and par["op"] not in ("==", "!=", "<=", ">=") and ir.unwrap(par.get("lhs")) is n:
                    okk = False
                else:
                    okk = False
        if not okk or not uses:
            continue
        cexpr = c if not neg else {"k": "Un", "op": "!", "e": c, "t": "bool", "l": d.get("l")}
        for kind, par, n in uses:
            repl = copy.deepcopy(cexpr if kind in ("test", "not") else X)
            for key in list(n.keys()):
                del n[key]
            n.update(repl)
        count += 1
    return count


def split_postinc_deref(body):
    """N5: `use(*p++);` is `use(p[0]); p++;` when `*p++` is the only mention of p in the statement (expression statements and
    single-variable declarations; returns and conditions keep their spelling).  Returns the number of rewrites."""
    count = [0]

    def leaf(s):
        k = s.get("k")
        if k not in ("Bin", "Call", "MCall", "OpCall", "Decl", "Cast"):
            return None
        if k == "Decl" and len(s.get("vars", [])) != 1:
            return None
        hits = []
        for n in walk(s):
            if n.get("k") == "Lambda":
                return None
            if n.get("k") == "Un" and n.get("op") == "*":
                inner = unwrap(n.get("e"))
                if isinstance(inner, dict) and inner.get("k") == "Un" and inner.get("op") == "post++" and path(inner.get("e")) is not None:
                    hits.append((n, inner))
        if len(hits) != 1:
            return None
        n, inner = hits[0]
        pp = path(inner["e"])
        mentions = sum(1 for x in walk(s) if path(x) == pp and x.get("k") in ("Ref", "Member"))
        if mentions != 1:
            return None
        # nothing else in the statement may have an effect that could depend on the order (calls are fine when pure)
        if any(x.get("k") == "Un" and x.get("op") in ("pre++", "post++", "pre--", "post--") and x is not inner for x in walk(s)):
            return None
        idx = {"k": "Index", "l": n.get("l"), "t": n.get("t"), "base": copy.deepcopy(inner["e"]),
               "idx": {"k": "Lit", "l": n.get("l"), "t": "int", "v": 0, "cv": 0}}

        def rep(x):
            if isinstance(x, list):
                return [rep(y) for y in x]
            if not isinstance(x, dict):
                return x
            if x is n:
                return idx
            return {kk: (rep(v) if isinstance(v, (dict, list)) else v) for kk, v in x.items()}
        count[0] += 1
        return [rep(s), {"k": "Un", "op": "post++", "l": inner.get("l"), "t": inner.get("t"), "e": copy.deepcopy(inner["e"])}]

    def visit(n):
        if isinstance(n, list):
            for x in n:
                visit(x)
            return
        if not isinstance(n, dict):
            return
        if n.get("k") == "Block":
            out = []
            for st in n.get("s", []):
                r = leaf(st) if isinstance(st, dict) else None
                if r is not None:
                    out.extend(r)
                else:
                    visit(st)
                    out.append(st)
            n["s"] = out
            return
        for key in ("then", "else", "body", "sub"):
            c = n.get(key)
            if isinstance(c, dict) and c.get("k") != "Block":
                r = leaf(c)
                if r is not None:
                    n[key] = {"k": "Block", "l": c.get("l"), "s": r}
                    continue
            if isinstance(c, (dict, list)):
                visit(c)
        for h in n.get("handlers", []) or []:
            visit(h.get("body"))
    visit(body)
    return count[0]


def project_aggregates(body, facts):
    """`T{e0, e1, ..}.f_i` is `e_i` (aggregate initialisation of a struct without bases, every other element pure): what is
    left of a small result struct after its local was substituted.  Returns the number of projections."""
    count = [0]

    def rec(x):
        if isinstance(x, list):
            for i, y in enumerate(x):
                r = rec(y)
                if r is not None:
                    x[i] = r
            return None
        if not isinstance(x, dict):
            return None
        for key in list(x.keys()):
            v = x[key]
            if isinstance(v, dict):
                r = rec(v)
                if r is not None:
                    x[key] = r
            elif isinstance(v, list):
                rec(v)
        if x.get("k") == "Member" and x.get("field") and not x.get("arrow"):
            b = x.get("base")
            while isinstance(b, dict) and (b.get("k") in ("Cast", "DefaultArg", "DefaultInit", "Paren") or
                                           (b.get("k") == "Construct" and b.get("copymove") and len(b.get("args", [])) == 1) or
                                           (b.get("k") == "Temp")):
                b = b.get("e") if b.get("k") != "Construct" else b["args"][0]
            if isinstance(b, dict) and b.get("k") == "InitList":
                rec_t = (b.get("t") or "").replace("const ", "")
                r = facts.records.get(rec_t)
                elems = b.get("c", [])
                if r and not r.get("bases") and len(r.get("fields", [])) == len(elems):
                    names = [f_["n"] for f_ in r["fields"]]
                    if x.get("n") in names:
                        i = names.index(x["n"])
                        if all(is_pure(e_, facts) for j, e_ in enumerate(elems) if j != i) and isinstance(elems[i], dict):
                            count[0] += 1
                            return copy.deepcopy(elems[i])
        return None
    rec(body)
    return count[0]


def _rr_match(p, t, st):
    """structural match of pattern node p (from the wrapper) against t; st: {'params': {idx: expr}, 'locals': {pid: tid}}"""
    if isinstance(p, list):
        return isinstance(t, list) and len(p) == len(t) and all(_rr_match(a, b, st) for a, b in zip(p, t))
    if not isinstance(p, dict):
        return p == t
    if p.get("k") == "Ref" and p.get("d") == "param":
        if not isinstance(t, dict):
            return False
        # the argument: something that names an object and computes nothing
        for x in walk(t):
            if x.get("k") not in ("Ref", "Member", "This", "Cast", "Paren"):
                return False
        idx = p.get("idx")
        if idx in st["params"]:
            return ir.show(st["params"][idx]) == ir.show(t)
        st["params"][idx] = t
        return True
    if not isinstance(t, dict) or p.get("k") != t.get("k"):
        return False
    if p.get("k") == "Ref" and p.get("d") == "local":
        if t.get("d") != "local":
            return False
        if p.get("id") in st["locals"]:
            return st["locals"][p["id"]] == t.get("id")
        return False                    # a local of the wrapper that was not declared in the window
    if p.get("k") == "Decl":
        pv, tv = p.get("vars", []), t.get("vars", [])
        if len(pv) != 1 or len(tv) != 1 or pv[0].get("t") != tv[0].get("t") or (pv[0].get("init") is None) != (tv[0].get("init") is None):
            return False
        if pv[0].get("init") is not None and not _rr_match(pv[0]["init"], tv[0]["init"], st):
            return False
        st["locals"][pv[0]["id"]] = tv[0]["id"]
        return True
    for k_ in set(p) | set(t):
        if k_ in ("l", "tw"):
            continue
        if k_ not in p or k_ not in t:
            return False
        if not _rr_match(p[k_], t[k_], st):
            return False
    return True


def reroll_wrappers(facts):
    """N0 (the inverse of N1): a public member function W whose body is `T r = <expr calling a non-public worker>; return e(r);`
    - declarations and one return, no control flow - defines what a call W(args) computes.  Where another member function of the
    same class spells that very computation out (the same declarations with objects in place of W's reference parameters,
    followed by a statement that consumes e(r), the locals used nowhere else), the spelled-out window *is* a call of W and is
    rewritten into one.  This keeps `write_block()` = `write_block(m_block)` + clear + re-arm when the serialising part of
    write_block(block) is moved into a private worker that both functions call."""
    n = 0
    by_cls = {}
    for f in facts.functions.values():
        if f.get("cls") and f.get("body_raw") is not None and f.get("inrepo", True) and not f.get("flattened"):
            by_cls.setdefault(f["cls"], []).append(f)
    for cls, fs in by_cls.items():
        for a in fs:
            if a.get("access", 0) != 0 or a.get("ctor") or a.get("dtor") or a.get("static") or a.get("virtual"):
                continue
            sts = [x for x in ir.stmts(a["body_raw"]) if x.get("k") != "Null"]
            if not (2 <= len(sts) <= 4) or sts[-1].get("k") != "Return" or sts[-1].get("e") is None or any(x.get("k") != "Decl" for x in sts[:-1]):
                continue
            if any(x.get("k") in ("Lambda", "Throw", "New") for s_ in sts for x in walk(s_)):
                continue
            workers = [c for s_ in sts for c in ir.calls_in(s_) if (c.get("callee") or {}).get("cls") == cls and c["callee"].get("access") in (1, 2)]
            if not workers:
                continue
            params = a.get("params", [])
            if not params or any(not (pp.get("t") or "").rstrip().endswith("&") for pp in params):
                continue
            for b in fs:
                if b is a or b["key"] == a["key"] or any(b["qn"] == (c.get("callee") or {}).get("qn") for c in workers):
                    continue
                for blk in [x for x in walk(b["body_raw"]) if x.get("k") == "Block"]:
                    lst = blk.get("s", [])
                    i = 0
                    while i + len(sts) <= len(lst):
                        st = {"params": {}, "locals": {}}
                        win = lst[i:i + len(sts) - 1]
                        if not all(_rr_match(ps, ts, st) for ps, ts in zip(sts[:-1], win)):
                            i += 1
                            continue
                        user = unwrap(lst[i + len(sts) - 1])
                        slot = None
                        if isinstance(user, dict) and user.get("k") == "Decl" and len(user.get("vars", [])) == 1 and user["vars"][0].get("init") is not None:
                            slot = (user["vars"][0], "init")
                        elif isinstance(user, dict) and user.get("k") == "Return" and user.get("e") is not None:
                            slot = (user, "e")
                        elif isinstance(user, dict) and user.get("k") == "Bin" and user.get("op") == "=":
                            slot = (user, "rhs")
                        if slot is None or not _rr_match(sts[-1]["e"], slot[0][slot[1]], st) or set(st["params"]) != set(range(len(params))):
                            i += 1
                            continue
                        # the window's locals live only in the window and in the consuming expression
                        ids = set(st["locals"].values())
                        inside = sum(1 for s_ in win + [slot[0][slot[1]]] for x in walk(s_) if x.get("k") == "Ref" and x.get("d") == "local" and x.get("id") in ids)
                        total = sum(1 for x in walk(b["body_raw"]) if x.get("k") == "Ref" and x.get("d") == "local" and x.get("id") in ids)
                        if inside != total:
                            i += 1
                            continue
                        line = win[0].get("l")
                        call = {"k": "MCall", "arrow": True, "l": line, "t": a.get("ret"),
                                "recv": {"k": "This", "l": line, "t": cls + " *"},
                                "callee": {"access": a.get("access", 0), "cls": cls, "inrepo": True, "qn": a["qn"], "ret": a.get("ret"), "sig": list(a.get("sig") or [])},
                                "args": [copy.deepcopy(st["params"][j]) for j in range(len(params))]}
                        slot[0][slot[1]] = call
                        del lst[i:i + len(sts) - 1]
                        n += 1
                        i += 1
    return n


_RESULT_INTS = ("unsigned long", "long", "unsigned int", "int", "unsigned long long", "long long", "unsigned short", "short", "unsigned char")


def erase_flagged_results(facts):
    """N12: a helper struct {bool flag; integer value} that is only ever built in place from constants, as {true, k} with k != 0
    or {false, 0}, carries nothing the value alone does not: flag == (value != 0) at every construction, hence everywhere.  Such
    a result type is erased to its value member: `return {true, 2}` is `return 2`, `r.flag` is `r != 0`, `r.value` is `r`, and
    functions, parameters and locals of the struct type have the value's type.  (This is the inverse of replacing a `0 means
    nothing was done` return by a result struct.)  Any other way of making or changing such a struct - a default-constructed
    local, a store to a member, a non-constant initialiser - leaves the type alone."""
    done = 0
    bodies = [f for f in list(facts.functions.values()) if f.get("body_raw") is not None]
    for qn, rec in list(facts.records.items()):
        fl = rec.get("fields", [])
        if rec.get("qn", qn) != qn or len(fl) != 2 or rec.get("methods") or not helper_type(facts, qn):
            continue
        bools = [f_ for f_ in fl if f_.get("t") == "bool"]
        ints = [f_ for f_ in fl if f_.get("t") in _RESULT_INTS]
        if len(bools) != 1 or len(ints) != 1:
            continue
        fi = fl.index(bools[0])
        vi = 1 - fi
        flag_n, val_n, val_t = fl[fi]["n"], fl[vi]["n"], fl[vi]["t"]

        def is_r(t):
            return (t or "").replace("const ", "").replace("&", "").strip() == qn
        ok, built = True, 0
        for f in bodies:
            for n in walk(f["body_raw"]):
                k = n.get("k")
                if k == "InitList" and is_r(n.get("t")):
                    c = n.get("c", [])
                    fv = ir.const_value(c[fi]) if len(c) == 2 else None
                    vv = ir.const_value(c[vi]) if len(c) == 2 else None
                    if fv is None or vv is None or isinstance(vv, str) or bool(fv) != (vv != 0):
                        ok = False
                    built += 1
                elif k == "Construct" and is_r(n.get("t")) and not (n.get("copymove") and len(n.get("args", [])) == 1):
                    ok = False
                elif k == "Decl" and any(is_r(v.get("t")) and v.get("init") is None for v in n.get("vars", [])):
                    ok = False
                elif k == "Bin" and (n.get("op") or "").endswith("=") and n.get("op") not in ("==", "!=", "<=", ">="):
                    l_ = ir.unwrap_all_casts(n.get("lhs"))
                    if isinstance(l_, dict) and (is_r(l_.get("t")) and n.get("op") != "=" or l_.get("k") == "Member" and l_.get("cls") == qn):
                        ok = False
                elif k == "Un" and n.get("op") in ("&", "pre++", "post++", "pre--", "post--"):
                    l_ = ir.unwrap_all_casts(n.get("e"))
                    if isinstance(l_, dict) and l_.get("k") == "Member" and l_.get("cls") == qn:
                        ok = False
        if not ok or not built:
            continue

        def ty(t):
            return t.replace(qn, val_t) if isinstance(t, str) and qn in t else t

        def rw(n):
            if isinstance(n, list):
                return [rw(x) for x in n]
            if not isinstance(n, dict):
                return n
            k = n.get("k")
            if k == "InitList" and is_r(n.get("t")):
                return rw(n["c"][vi])
            if k == "Construct" and is_r(n.get("t")) and n.get("copymove") and len(n.get("args", [])) == 1:
                return rw(n["args"][0])
            if k == "Member" and n.get("cls") == qn and n.get("field"):
                b = rw(n.get("base"))
                if n.get("n") == val_n:
                    return b
                return {"k": "Bin", "op": "!=", "l": n.get("l"), "t": "bool", "lhs": b,
                        "rhs": {"k": "Cast", "ck": "IntegralCast", "style": "implicit", "from": "int", "t": val_t, "cv": 0, "l": n.get("l"),
                                "e": {"k": "Lit", "v": 0, "cv": 0, "t": "int", "l": n.get("l")}}}
            out = {}
            for kk, vv in n.items():
                if kk in ("t", "from", "ret", "tw"):
                    out[kk] = ty(vv)
                elif kk == "sig" and isinstance(vv, list):
                    out[kk] = [ty(x) for x in vv]
                else:
                    out[kk] = rw(vv) if isinstance(vv, (dict, list)) else vv
            return out
        for f in bodies:
            f["body_raw"] = rw(f["body_raw"])
            if f.get("body") is not None:
                f["body"] = f["body_raw"]
            f["ret"] = ty(f.get("ret"))
            if f.get("sig"):
                f["sig"] = [ty(x) for x in f["sig"]]
            for pp in f.get("params", []) or []:
                pp["t"] = ty(pp.get("t"))
                if "tw" in pp:
                    pp["tw"] = ty(pp["tw"])
        facts.erased_results = getattr(facts, "erased_results", {})
        facts.erased_results[qn] = "%s == (%s != 0) at all %d constructions" % (flag_n, val_n, built)
        done += 1
    return done


def find_worker_wrappers(facts):
    """facts.worker_wrappers[worker key] = {wrapper: key, field: f, qn, sig, ret, args}: public member functions whose whole body
    is `return worker(<own parameters / members>).field;` with `worker` a non-public member of the same class returning a helper
    struct."""
    out = {}
    for w in facts.functions.values():
        if not w.get("cls") or w.get("access", 0) != 0 or w.get("body_raw") is None or w.get("ctor") or w.get("dtor"):
            continue
        sts = [x for x in ir.stmts(w["body_raw"]) if x.get("k") != "Null"]
        if len(sts) != 1 or sts[0].get("k") != "Return" or sts[0].get("e") is None:
            continue
        m = ir.unwrap_all_casts(sts[0]["e"])
        if not (isinstance(m, dict) and m.get("k") == "Member" and m.get("field")):
            continue
        c = ir.unwrap_all_casts(m.get("base"))
        while isinstance(c, dict) and c.get("k") == "Construct" and c.get("copymove") and len(c.get("args", [])) == 1:
            c = ir.unwrap_all_casts(c["args"][0])
        if not (isinstance(c, dict) and c.get("k") == "MCall" and isinstance(c.get("callee"), dict) and c["callee"].get("cls") == w["cls"] and
                c["callee"].get("access") in (1, 2) and ir.unwrap_all_casts(c.get("recv") or {}).get("k") == "This"):
            continue
        rt = (c.get("t") or "").replace("const ", "")
        if not helper_type(facts, rt):
            continue
        ok = True
        for i, a in enumerate(c.get("args", [])):
            u = ir.unwrap_all_casts(a)
            if isinstance(u, dict) and u.get("k") == "Ref" and u.get("d") == "param":
                continue
            if isinstance(u, dict) and u.get("k") == "Member" and path(u) and path(u)[0] == "this":
                continue
            ok = False
        if not ok:
            continue
        tgt = [g for g in facts.fns(c["callee"]["qn"]) if g.get("sig") == c["callee"].get("sig")]
        if len(tgt) != 1 or tgt[0]["key"] in out:
            continue
        out[tgt[0]["key"]] = {"wrapper": w["key"], "wfn": w, "field": m["n"], "args": c.get("args", []), "rtype": rt}
    facts.worker_wrappers = out
    return out


def _weak_flag_results(facts):
    """helper structs {bool flag; integer value} for which flag == false implies value == 0 at every return of every function
    that returns one: built as {false, 0}, the value changed only in front of a statement-level `flag = true` with no return
    between - or a result passed through unchanged from such a function.  -> {record: (flag name, value name)}"""
    out = {}
    for qn, rec in facts.records.items():
        fl = rec.get("fields", [])
        if rec.get("qn", qn) != qn or len(fl) != 2 or not helper_type(facts, qn):
            continue
        b = [f_ for f_ in fl if f_.get("t") == "bool"]
        i = [f_ for f_ in fl if f_.get("t") in _RESULT_INTS]
        if len(b) != 1 or len(i) != 1:
            continue
        flag, val = b[0]["n"], i[0]["n"]
        fi = fl.index(b[0])
        producers = [g for g in list(facts.functions.values()) + list(getattr(facts, "absorbed", {}).values())
                     if (g.get("ret") or "").replace("const ", "") == qn and g.get("body_raw") is not None]
        if not producers:
            continue
        good = True
        for g in producers:
            top = [x for x in ir.stmts(g["body_raw"]) if x.get("k") != "Null"]
            loc = None
            for x in top:
                if x.get("k") == "Decl" and len(x.get("vars", [])) == 1 and (x["vars"][0].get("t") or "").replace("const ", "") == qn:
                    loc = x["vars"][0]
                    break
            rets = [x for x in walk(g["body_raw"]) if x.get("k") == "Return" and x.get("e") is not None]
            def returns_local(r_):
                e_ = ir.unwrap_all_casts(r_["e"])
                while isinstance(e_, dict) and e_.get("k") == "Construct" and e_.get("copymove") and len(e_.get("args", [])) == 1:
                    e_ = ir.unwrap_all_casts(e_["args"][0])
                return isinstance(e_, dict) and e_.get("k") == "Ref" and e_.get("d") == "local" and loc is not None and e_.get("id") == loc.get("id")
            if loc is None or not rets or not all(returns_local(r_) for r_ in rets):
                good = False
                break
            init = ir.unwrap_all_casts(loc.get("init")) if loc.get("init") is not None else None
            while isinstance(init, dict) and init.get("k") == "Construct" and init.get("copymove") and len(init.get("args", [])) == 1:
                init = ir.unwrap_all_casts(init["args"][0])
            def member_store(x_, name):
                if x_.get("k") == "Bin" and (x_.get("op") or "").endswith("=") and x_.get("op") not in ("==", "!=", "<=", ">="):
                    l_ = ir.unwrap_all_casts(x_.get("lhs"))
                    return isinstance(l_, dict) and l_.get("k") == "Member" and l_.get("n") == name and \
                        isinstance(ir.unwrap_all_casts(l_.get("base")), dict) and ir.unwrap_all_casts(l_["base"]).get("id") == loc.get("id")
                return False
            stores_v = [x_ for x_ in walk(g["body_raw"]) if member_store(x_, val)]
            stores_f = [x_ for x_ in walk(g["body_raw"]) if member_store(x_, flag)]
            if isinstance(init, dict) and init.get("k") in ("MCall", "Call"):
                # passed through from another producer: nothing of it may be changed here
                if stores_v or stores_f:
                    good = False
                    break
                continue
            if not (isinstance(init, dict) and init.get("k") == "InitList" and len(init.get("c", [])) == 2 and
                    ir.const_value(init["c"][fi]) == 0 and ir.const_value(init["c"][1 - fi]) == 0):
                good = False
                break
            if any(ir.const_value(x_.get("rhs")) != 1 or x_.get("op") != "=" for x_ in stores_f):
                good = False
                break
            if stores_v:
                idx_v = [k_ for k_, x in enumerate(top) if any(y is sv for sv in stores_v for y in walk(x))]
                idx_f = [k_ for k_, x in enumerate(top) if ir.unwrap(x) in stores_f or x in stores_f]
                if not idx_f:
                    good = False
                    break
                lastf = idx_f[-1]
                if max(idx_v) > lastf or any(y.get("k") == "Return" for x in top[min(idx_v):lastf] for y in walk(x)):
                    good = False
                    break
        if good:
            out[qn] = (flag, val)
    return out


def project_worker_calls(facts):
    """After N1: (1) `r.flag ? r.value : 0` is `r.value` for a result struct whose flag false implies value 0; (2) a local that holds
    the result of a worker call and of which only the member the worker's wrapper returns is used holds what the wrapper
    returns - `T r = worker(args); .. r.bytes ..` is `auto b = wrapper(args); .. b ..`."""
    n = 0
    weak = _weak_flag_results(facts)
    pairs = getattr(facts, "worker_wrappers", {})
    if not weak and not pairs:
        return 0
    for f in facts.functions.values():
        body = f.get("body")
        if body is None:
            continue
        if weak:
            for x in walk(body):
                if x.get("k") != "Cond":
                    continue
                c, a, b = ir.unwrap_all_casts(x.get("c")), ir.unwrap_all_casts(x.get("a")), x.get("b")
                if not (isinstance(c, dict) and c.get("k") == "Member" and isinstance(a, dict) and a.get("k") == "Member" and ir.const_value(b) == 0):
                    continue
                rt = (c.get("cls") or "")
                if rt in weak and (c.get("n"), a.get("n")) == weak[rt] and ir.show(c.get("base")) == ir.show(a.get("base")):
                    keep = copy.deepcopy(x["a"])
                    x.clear()
                    x.update(keep)
                    n += 1
        if not pairs:
            continue
        for blk in [x for x in walk(body) if x.get("k") == "Block"]:
            for st in blk.get("s", []):
                if not (isinstance(st, dict) and st.get("k") == "Decl" and len(st.get("vars", [])) == 1 and st["vars"][0].get("init") is not None):
                    continue
                v = st["vars"][0]
                c = ir.unwrap_all_casts(v["init"])
                while isinstance(c, dict) and c.get("k") == "Construct" and c.get("copymove") and len(c.get("args", [])) == 1:
                    c = ir.unwrap_all_casts(c["args"][0])
                if not (isinstance(c, dict) and c.get("k") == "MCall" and isinstance(c.get("callee"), dict)):
                    continue
                tg = [g for g in facts.fns(c["callee"].get("qn")) if g.get("sig") == c["callee"].get("sig")]
                if len(tg) != 1 or tg[0]["key"] not in pairs or f["key"] in (tg[0]["key"], pairs[tg[0]["key"]]["wrapper"]):
                    continue
                pr = pairs[tg[0]["key"]]
                w = pr["wfn"]
                # the arguments: the wrapper's own parameters are passed on in order, members are the same members here
                args_w = []
                okb = len(c.get("args", [])) == len(pr["args"])
                for a_w, a_c in zip(pr["args"], c.get("args", [])):
                    u_w = ir.unwrap_all_casts(a_w)
                    if u_w.get("k") == "Ref" and u_w.get("d") == "param":
                        args_w.append((u_w.get("idx"), a_c))
                    elif ir.show(u_w) != ir.show(ir.unwrap_all_casts(a_c)):
                        okb = False
                if not okb or sorted(i_ for i_, _ in args_w) != list(range(len(w.get("params", [])))):
                    continue
                uses = [(x, ps) for x, ps in ir.walk_with_parents(body) if x.get("k") == "Ref" and x.get("d") == "local" and x.get("id") == v.get("id")]
                members = []
                good = True
                for x, ps in uses:
                    ps = [p_ for p_ in ps if isinstance(p_, dict)]
                    par = ps[-1] if ps else None
                    while isinstance(par, dict) and (par.get("k") in ("Cast", "Paren") or
                                                     par.get("k") == "Construct" and par.get("copymove") and len(par.get("args", [])) == 1):
                        ps = ps[:-1]
                        par = ps[-1] if ps else None
                    if isinstance(par, dict) and par.get("k") == "Member" and par.get("n") == pr["field"]:
                        members.append(par)
                    else:
                        good = False
                if not good or not members:
                    continue
                ft = members[0].get("t") or w.get("ret")
                v["t"] = (w.get("ret") or ft)
                v["tw"] = v["t"]
                v["init"] = {"k": "MCall", "arrow": True, "l": st.get("l"), "t": w.get("ret"),
                             "recv": {"k": "This", "l": st.get("l"), "t": w["cls"] + " *"},
                             "callee": {"access": 0, "cls": w["cls"], "inrepo": True, "qn": w["qn"], "ret": w.get("ret"), "sig": list(w.get("sig") or [])},
                             "args": [a_ for _, a_ in sorted(args_w, key=lambda t_: t_[0])]}
                for m_ in members:
                    l0 = m_.get("l")
                    m_.clear()
                    m_.update({"k": "Ref", "d": "local", "id": v.get("id"), "n": v.get("n"), "t": v["t"], "l": l0})
                n += 1
    # a worker no call of which is left lives on only inside its wrapper
    changed = True
    while changed:
        changed = False
        still = set()
        for f in facts.functions.values():
            if f.get("body") is not None:
                for x in walk(f["body"]):
                    if x.get("k") in ("Call", "MCall") and isinstance(x.get("callee"), dict):
                        still.add((x["callee"].get("qn"), tuple(x["callee"].get("sig") or ())))
        for key in list(pairs):
            g = facts.functions.get(key)
            if g is not None and (g["qn"], tuple(g.get("sig") or ())) not in still:
                facts.absorbed[key] = facts.functions.pop(key)
                lst = facts.by_qn.get(g["qn"], [])
                if g in lst:
                    lst.remove(g)
                changed = True
    return n


def normalise(facts, do_inline=True, do_propagate=True):
    inl = Inliner(facts)
    for f in facts.functions.values():
        if f.get("body") is not None and "body_raw" not in f:
            f["body_raw"] = f["body"]
    rerolled = reroll_wrappers(facts) if do_inline else 0
    if do_inline:
        erase_flagged_results(facts)
        find_worker_wrappers(facts)
    stats = {"inlined_calls": 0, "propagated_uses": 0, "helpers_absorbed": [], "rerolled": rerolled}
    if do_inline:
        for f in list(facts.functions.values()):
            if f.get("body_raw") is None:
                continue
            nb = inl.normalised_body(f, ())
            if nb is not None:
                f["body"] = copy.deepcopy(nb)
        stats["inlined_calls"] = sum(inl.inlined_calls.values())
        # helpers every call of which was inlined are analysed in their callers' context only
        still_called = set()
        for f in facts.functions.values():
            if f.get("body") is not None:
                for n in walk(f["body"]):
                    if n.get("k") in ("Call", "MCall", "OpCall", "Construct") and isinstance(n.get("callee"), dict):
                        still_called.add((n["callee"].get("qn"), tuple(n["callee"].get("sig") or ())))
        for key, cnt in inl.inlined_calls.items():
            if inl.kept_calls.get(key, 0) == 0 and key in facts.functions:
                f = facts.functions[key]
                if (f["qn"], tuple(f.get("sig") or ())) in still_called:
                    continue
                if f.get("internal") or f.get("access", 0) in (1, 2):
                    stats["helpers_absorbed"].append(f["qn"] + f.get("targs", ""))
                    facts.absorbed[key] = facts.functions.pop(key)
                    lst = facts.by_qn.get(f["qn"], [])
                    if f in lst:
                        lst.remove(f)
    if do_inline:
        stats["worker_calls_projected"] = project_worker_calls(facts)
    if do_propagate:
        memo = {}
        # which functions mention which namespace-scope objects (for N6c)
        global_users = {}
        for f in facts.functions.values():
            if f.get("body") is not None:
                for n in walk(f["body"]):
                    if n.get("k") == "Ref" and n.get("d") == "global" and not n.get("const"):
                        global_users.setdefault(n.get("qn") or n.get("n"), set()).add(f["key"])
                        global_users.setdefault((n.get("qn") or n.get("n") or "").split("::")[-1], set()).add(f["key"])
        for f in facts.functions.values():
            if f.get("body") is not None:
                if f["body"] is f.get("body_raw"):
                    f["body"] = copy.deepcopy(f["body"])
                substitute_named_constants(f["body"], facts)
                stats["commits_forwarded"] = stats.get("commits_forwarded", 0) + forward_commits(f["body"], f, facts)
                stats["sroa"] = stats.get("sroa", 0) + scalar_replace_aggregates(f["body"], facts)
                stats["decl_merged"] = stats.get("decl_merged", 0) + merge_decl_with_first_store(f["body"])
                stats["optional_this"] = stats.get("optional_this", 0) + resolve_optional_this(f["body"])
                stats["split_postinc"] = stats.get("split_postinc", 0) + split_postinc_deref(f["body"])
                stats["memos_removed"] = stats.get("memos_removed", 0) + eliminate_local_memos(f["body"], facts, memo)
                stats["memos_removed"] += eliminate_static_memos(f["body"], f, facts, global_users)
                nb_ = eliminate_branch_memos(f["body"], facts, memo)
                if nb_:
                    stats["memos_removed"] += nb_
                    stats["decl_merged"] += merge_decl_with_first_store(f["body"])
                for _round in range(3):
                    # (a flag copied out of an inlined callee's result becomes a constant store only after the callee's own
                    # flag was folded: the second round folds the copy)
                    nf_ = fold_local_flags(f["body"], facts)
                    stats["flags_folded"] = stats.get("flags_folded", 0) + nf_
                    if not nf_:
                        break
                    stats["stores_split"] = stats.get("stores_split", 0) + split_stores(f["body"], facts)
                    _tidy(f["body"])
                if coalesce_value_copies(f["body"]):
                    _tidy(f["body"])
                nl_ = reswitch_loops(f["body"], facts, memo)
                if nl_:
                    stats["loops_reswitched"] = stats.get("loops_reswitched", 0) + nl_
                    stats["branch_ends_merged"] = stats.get("branch_ends_merged", 0) + merge_branch_ends(f["body"], facts)
                    _tidy(f["body"])
                ns_ = sink_refined_stores(f["body"], facts)
                if ns_:
                    stats["stores_sunk"] = stats.get("stores_sunk", 0) + ns_
                    stats["copies_coalesced"] = stats.get("copies_coalesced", 0) + coalesce_copies(f["body"], facts)
                    stats["decl_merged"] += merge_decl_with_first_store(f["body"])
                    _tidy(f["body"])
                stats["propagated_uses"] += propagate(f["body"], facts, memo)
                stats["results_merged"] = stats.get("results_merged", 0) + merge_adjacent_result(f["body"], facts)
                stats["projected"] = stats.get("projected", 0) + project_aggregates(f["body"], facts)
                fold_constants(f["body"], facts.enums)
                if post_lift(f["body"], inl):
                    fold_constants(f["body"], facts.enums)
    stats["kept_calls"] = sum(inl.kept_calls.values())
    stats["log"] = inl.log[:2000]
    facts.norm_stats = stats
    return stats


def self_check(facts):
    """Controls in tu/normalize_fixtures.cpp: the normalisation must keep / substitute exactly the locals the
    fixture names say.  A wrong answer means the rewriting is unsound or dead: every check stops (exit 2)."""
    from .facts import AnalysisBroken
    seen = 0
    for f in list(facts.functions.values()):
        q = f["qn"]
        if not q.startswith("verif_fx::") or ("_keep_" not in q and "_subst_" not in q):
            continue
        mode, var = ("keep", q.split("_keep_")[1]) if "_keep_" in q else ("subst", q.split("_subst_")[1])
        uses = [n for n in walk(f["body"]) if n.get("k") == "Ref" and n.get("d") == "local" and n.get("n") == var]
        seen += 1
        if mode == "keep" and not uses:
            raise AnalysisBroken("normalise", "control %s: local `%s` was substituted although a write intervenes" % (q, var))
        if mode == "subst" and uses:
            raise AnalysisBroken("normalise", "control %s: local `%s` was not substituted" % (q, var))
    if seen < 26:
        raise AnalysisBroken("normalise", "only %d normalisation controls found (tu/normalize_fixtures.cpp)" % seen)
    # the fixtures are not part of the analysed program
    for k in [k for k, f in facts.functions.items() if f["qn"].startswith("verif_fx::")]:
        f = facts.functions.pop(k)
        lst = facts.by_qn.get(f["qn"], [])
        if f in lst:
            lst.remove(f)
    facts.norm_stats["controls_checked"] = seen
