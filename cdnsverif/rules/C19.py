"""C19 Blocks have value semantics: a copy is complete and independent of its source."""
from .. import ir, consumption
from ..ir import path, path_str, unwrap, unwrap_all_casts, callee_name, callee_qn, show
from ..facts import AnalysisBroken

META = {
    "level": "proof",
    "rule_text": "Sufficient condition given value-semantic standard containers: R19.1 every class in the transitive member "
                 "closure of CdnsBlock/CdnsBlockRead that stores a borrowing type (a class with a reference member, here "
                 "KeyRef<K>) has user-provided copy operations which do not copy the borrowing member from the source but "
                 "rebuild it from the object's own storage; R19.2 the user-provided assignment of CdnsBlock assigns every data "
                 "member and CdnsBlockRead re-seats its cursors on its own containers; R19.3 copy/move constructors and move "
                 "assignment delegate to those assignments (no member-wise default bypasses them). R19.4 all stores into a reverse index keyed by a borrowing type (incremental maintenance and the rebuild after a copy) treat equal keys the same way - overwrite or keep-first. R19.1 accepts copy-and-swap: a copy built with the copy constructor and every data member swapped with it. R19.2 follows a copy-aside temporary (constructor initialisers, member stores) through a pairwise swap helper; a validity-guarded memo (cdnsverif/memos.py: a bool member, false initially, only tested and assigned constants, and the members read only where it is true) may be reset instead of copied; the base part may be spelled out member by member. R19.3 also accepts a special member that performs exactly the statements of the copy assignment. R19.5 (= R11.7): a loop over a table's own items that refills its reverse index stores a local counter that starts at 0 and is incremented once per item after the store - every item is entered under its position.",
    "explanation": "Ownership/borrowing rule over record facts (special members implicit/defaulted/user, field types) and "
                   "the bodies of the copy operations. Every obligation is enumerated and must be discharged; with the "
                   "trusted base (std containers copy by value) the rule implies independence of source and copy.",
    "trusted_base": ["clang 14 AST special-member classification", "std::deque/vector/unordered_map/optional/string copy by value"],
    "assumptions": ["no pointer/reference members other than the ones enumerated by the rule exist in the closure (checked: R19.1 lists every reference/pointer/iterator member)"],
}

ROOTS = ["CDNS::CdnsBlock", "CDNS::CdnsBlockRead"]


def short(q):
    return q.replace("CDNS::", "")


def borrowing_records(facts):
    """Records that have a non-static reference or raw-pointer member (they borrow)."""
    return {q for q, r in facts.records.items() if any(f.get("ref") or f.get("ptr") for f in r["fields"])}


def closure(facts, roots):
    seen = {}
    work = list(roots)
    while work:
        q = work.pop()
        if q in seen:
            continue
        r = facts.records.get(q)
        if r is None:
            continue
        seen[q] = r
        for b in r.get("bases", []):
            work.append(b["t"])
        for f in r["fields"]:
            t = f["t"]
            for other in facts.records:
                if other != q and other in t:
                    work.append(other)
    return seen


def mentions(t, names):
    return [n for n in names if n in t]


def rhs_param(fn):
    return "p:%s" % fn["params"][0]["n"] if fn.get("params") else None


def copy_and_swap(facts, fn, q, rp, rec):
    """operator= of class q:  `q tmp(rhs); swap(tmp);` where the swap helper exchanges every data member of the class."""
    tmp = None
    for n in ir.walk(fn["body"]):
        if n.get("k") == "Decl":
            for v in n.get("vars", []):
                t = (v.get("t") or "").replace("const ", "")
                init = v.get("init")
                if t == q and isinstance(init, dict) and path(init) == (rp,):
                    tmp = ("l:%s#%s" % (v["n"], v["id"]),)
    if tmp is None:
        return False
    fields = set(fl["n"] for fl in rec.get("fields", []))

    def swaps_in(body, a_name, b_name):
        swapped = set()
        for x in ir.calls_in(body):
            if callee_name(x) != "swap":
                continue
            if x.get("k") == "MCall" and len(x.get("args", [])) == 1:
                a, b = path(x.get("recv")), path(x["args"][0])
            elif len(x.get("args", [])) == 2:
                a, b = path(x["args"][0]), path(x["args"][1])
            else:
                continue
            if a and b and len(a) == 2 and len(b) == 2 and a[1] == b[1] and {a[0], b[0]} == {a_name, b_name}:
                swapped.add(a[1])
        return swapped
    # the swap helper may have been expanded in place
    if fields and fields <= swaps_in(fn["body"], "this", tmp[0]):
        return True
    for c in ir.calls_in(fn["body"]):
        cal = c.get("callee") or {}
        if c.get("k") == "MCall" and cal.get("cls") == q and len(c.get("args", [])) == 1 and path(c["args"][0]) == tmp and \
                path(c.get("recv")) in (("this",), None):
            helpers = [h for h in facts.fns(cal.get("qn")) if h.get("cls") == q and h["sig"] == cal.get("sig")]
            if len(helpers) != 1 or helpers[0].get("body") is None:
                continue
            h = helpers[0]
            other = "p:%s" % h["params"][0]["n"]
            swapped = set()
            for x in ir.calls_in(h["body"]):
                nm = callee_name(x)
                if nm != "swap":
                    continue
                if x.get("k") == "MCall" and len(x.get("args", [])) == 1:
                    a, b = path(x.get("recv")), path(x["args"][0])
                elif len(x.get("args", [])) == 2:
                    a, b = path(x["args"][0]), path(x["args"][1])
                else:
                    continue
                if a and b and len(a) == 2 and len(b) == 2 and a[1] == b[1] and {a[0], b[0]} == {"this", other}:
                    swapped.add(a[1])
            fields = set(fl["n"] for fl in rec.get("fields", []))
            if fields and fields <= swapped:
                return True
    return False


def block_assignment_sources(facts, asg):
    """{member of *this: path its new value comes from} for CdnsBlock::operator=(rhs).  Direct stores `this->m = rhs.m`, and
    the copy-aside form: a local CdnsBlock that receives the source's members (through its constructor's initialisers or
    by assignment) and is then exchanged with *this by a helper that swaps members pairwise."""
    rp = rhs_param(asg)
    assigned = {}
    for lp, rhs, node in consumption.assignment_targets(ir.stmts(asg["body"])):
        if lp and lp[0] == "this" and len(lp) == 2:
            assigned[lp[1]] = path(unwrap_all_casts(rhs))
    # locals of the class itself
    for d in ir.walk(asg["body"]):
        if d.get("k") != "Decl":
            continue
        for v in d.get("vars", []):
            if (v.get("t") or "").replace("const ", "") != "CDNS::CdnsBlock" or "id" not in v:
                continue
            tname = "l:%s#%s" % (v["n"], v["id"])
            T = {}
            init = unwrap(v.get("init")) if v.get("init") is not None else None
            if isinstance(init, dict) and init.get("k") == "Construct":
                if init.get("copymove") or (len(init.get("args", [])) == 1 and path(init["args"][0]) == (rp,)):
                    continue        # a whole copy goes through the copy constructor, which is this operator again
                cal = init.get("callee") or {}
                for cf in facts.functions.values():
                    if cf.get("cls") == "CDNS::CdnsBlock" and cf.get("ctor") and cf["sig"] == cal.get("sig", []):
                        pidx = {p["id"]: i for i, p in enumerate(cf.get("params", []))}
                        for ini in cf.get("inits", []) or []:
                            u = unwrap_all_casts(ini.get("init")) if ini.get("init") is not None else None
                            while isinstance(u, dict) and u.get("k") == "Construct" and len(u.get("args", [])) == 1:
                                u = unwrap_all_casts(u["args"][0])
                            if ini.get("member") and isinstance(u, dict) and u.get("k") == "Ref" and u.get("d") == "param" and u.get("id") in pidx:
                                a = init["args"][pidx[u["id"]]] if pidx[u["id"]] < len(init.get("args", [])) else None
                                if a is not None and path(a) is not None:
                                    T[ini["member"]] = path(a)
            for lp, rhs, node in consumption.assignment_targets(ir.stmts(asg["body"])):
                if lp and lp[0] == tname and len(lp) == 2:
                    T[lp[1]] = path(unwrap_all_casts(rhs))
            # exchanged with *this
            for c in ir.calls_in(asg["body"]):
                cal = c.get("callee") or {}
                if c.get("k") == "MCall" and cal.get("cls") == "CDNS::CdnsBlock" and len(c.get("args", [])) == 1 and path(c["args"][0]) == (tname,) \
                        and path(c.get("recv")) in (("this",), None):
                    for h in facts.fns(cal.get("qn")):
                        if h.get("cls") != "CDNS::CdnsBlock" or h["sig"] != cal.get("sig") or h.get("body") is None:
                            continue
                        other = "p:%s" % h["params"][0]["n"]
                        for x in ir.calls_in(h["body"]):
                            if callee_name(x) != "swap":
                                continue
                            if x.get("k") == "MCall" and len(x.get("args", [])) == 1:
                                a, b = path(x.get("recv")), path(x["args"][0])
                            elif len(x.get("args", [])) == 2:
                                a, b = path(x["args"][0]), path(x["args"][1])
                            else:
                                continue
                            if a and b and len(a) == 2 and len(b) == 2 and a[1] == b[1] and {a[0], b[0]} == {"this", other} and a[1] in T:
                                assigned[a[1]] = T[a[1]]
    return assigned, rp


def same_effect(f, g):
    """the bodies of f and g are the same statements once their first parameters are identified and `return *this` is dropped"""
    def shape(n, pname):
        if isinstance(n, list):
            return [shape(x, pname) for x in n]
        if not isinstance(n, dict):
            return n
        if n.get("k") == "Cast":
            return shape(n.get("e"), pname)
        if n.get("k") == "Ref" and n.get("d") == "param" and n.get("n") == pname:
            return {"k": "Ref", "d": "param", "n": "<source>"}
        return {k: shape(v, pname) for k, v in sorted(n.items()) if k not in ("l", "t", "tw", "cv", "from", "ck", "elidable", "id", "idx")}

    def sts(fn):
        pn = fn["params"][0]["n"] if fn.get("params") else None
        out = []
        top = []
        for x in ir.stmts(fn["body"]):
            # the self-assignment test of an assignment operator wraps the same statements a constructor runs unconditionally
            if isinstance(x, dict) and x.get("k") == "If" and x.get("else") is None:
                c_ = unwrap_all_casts(x.get("cond"))
                if isinstance(c_, dict) and c_.get("k") == "Bin" and c_.get("op") == "!=" and \
                        any(isinstance(unwrap_all_casts(c_.get(sd)), dict) and unwrap_all_casts(c_[sd]).get("k") == "This" for sd in ("lhs", "rhs")):
                    top.extend(ir.stmts(x.get("then")))
                    continue
            top.append(x)
        for x in top:
            if isinstance(x, dict) and x.get("k") == "Return" and (x.get("e") is None or unwrap_all_casts(x["e"]).get("k") in ("This", "Un")):
                continue
            if isinstance(x, dict) and x.get("k") == "Null":
                continue
            out.append(shape(x, pn))
        return out
    a, b = sts(f), sts(g)
    return bool(a) and a == b


def check_block_assignment(run, rule, only=None):
    facts = run.facts
    blk = facts.record("CDNS::CdnsBlock", rule=rule)
    asg = [f for f in facts.fns("CDNS::CdnsBlock::operator=") if f["sig"] == ["CDNS::CdnsBlock &"]]
    if len(asg) != 1:
        raise AnalysisBroken(rule, "CdnsBlock::operator=(CdnsBlock&) not found")
    asg = asg[0]
    assigned, rp = block_assignment_sources(facts, asg)
    n = 0
    # lookup memos (cdnsverif/memos.py): a validity flag that the assignment resets next to the member copies leaves the copy
    # without a memo, which is how a freshly built block starts; the members read only under that flag carry nothing
    from .. import memos
    memo = {}
    groups = memos.flags(facts, "CDNS::CdnsBlock")
    if groups:
        copies = [node for lp, rhs, node in consumption.assignment_targets(ir.stmts(asg["body"]))
                  if lp and lp[0] == "this" and len(lp) == 2 and path(unwrap_all_casts(rhs)) == (rp, lp[1])]
        for b in ir.walk(asg["body"]):
            if b.get("k") != "Block" or not any(any(x is c for x in ir.walk(st)) for st in b.get("s", []) for c in copies[:1]):
                continue
            for st in b.get("s", []):
                u = unwrap(st) if isinstance(st, dict) else None
                if isinstance(u, dict) and u.get("k") == "Bin" and u.get("op") == "=" and ir.const_value(u.get("rhs")) == 0:
                    lp = path(u.get("lhs"))
                    if lp and len(lp) == 2 and lp[0] == "this" and lp[1] in groups and assigned.get(lp[1]) is None:
                        memo[lp[1]] = "validity flag of a lookup memo, reset with the copy: the copy starts without a memo like a freshly built block"
                        for g in groups[lp[1]]:
                            memo[g] = "read only where %s is true, which the assignment resets" % lp[1]
    for f in blk["fields"]:
        if only and f["n"] not in only:
            continue
        n += 1
        src = assigned.get(f["n"])
        ok = src == (rp, f["n"])
        if not ok and f["n"] in memo:
            run.ob(rule, "CdnsBlock::operator=:%s" % f["n"], True, asg, asg["line"], memo[f["n"]])
            continue
        run.ob(rule, "CdnsBlock::operator=:%s" % f["n"], ok, asg, asg["line"],
               "member copied from the same member of the source" if ok else
               ("member %s is not assigned in CdnsBlock::operator=: the copy keeps its old %s" % (f["n"], f["n"]) if src is None else
                "member %s is assigned from %s" % (f["n"], path_str(src))))
    run.floor(rule, 15 if not only else len(only), "data members of CdnsBlock")


def check(run):
    facts = run.facts
    borrow = borrowing_records(facts)
    clos = closure(facts, ROOTS)
    if "CDNS::CdnsBlock" not in clos:
        raise AnalysisBroken("R19.1", "CdnsBlock record not found")
    n_b = 0
    # a borrowing type that provides its own copy constructor and copy assignment looks after its pointers itself: it is checked
    # as the owner of those members, and the classes that hold it simply delegate to its operations
    self_managing = {q for q in borrow if q in facts.records and
                     facts.records[q].get("special", {}).get("copyCtor") not in ("implicit", "defaulted", "none", None) and
                     facts.records[q].get("special", {}).get("copyAssign") not in ("implicit", "defaulted", "none", None)}
    borrow = borrow - self_managing
    for q, r in sorted(clos.items()):
        bfields = [f for f in r["fields"] if mentions(f["t"], borrow) or "_Node_iterator" in f["t"] or "iterator" in f["t"].lower()]
        direct = [f for f in r["fields"] if f.get("ref") or f.get("ptr")]
        if q in self_managing:
            bfields = bfields + [f for f in direct if f not in bfields]
        if q in borrow:
            # the borrowing type itself (KeyRef): it is only ever stored inside an owner that is checked below
            run.ob("R19.1", "%s:is-borrowing-type" % short(q), True, r["file"], r["line"],
                   "borrowing type (members %s); owners are checked individually" % [f["n"] for f in direct], nontrivial=False)
            continue
        for f in bfields:
            n_b += 1
            sp = r["special"]
            is_iter = "iterator" in f["t"].lower() and not mentions(f["t"], borrow)
            key = "%s.%s" % (short(q), f["n"])
            for op, what in (("copyCtor", "copy constructor"), ("copyAssign", "copy assignment")):
                kind = sp.get(op)
                if kind == "deleted":
                    run.ob("R19.1", "%s:%s" % (key, op), True, r["file"], f.get("l", r["line"]), "%s is deleted" % what, nontrivial=False)
                    continue
                if kind in ("implicit", "defaulted", "none"):
                    run.ob("R19.1", "%s:%s" % (key, op), False, r["file"], f.get("l", r["line"]),
                           "%s has an %s %s, which copies member %s (%s) verbatim: the copy's %s keeps referring to the *source's* storage and "
                           "dangles once the source is modified or destroyed" % (short(q), kind, what, f["n"], f["t"][:70], f["n"]))
                    continue
                # user-provided: body must not copy the member from the source
                cands = []
                for fn in facts.functions.values():
                    if fn.get("cls") != q:
                        continue
                    if op == "copyCtor" and fn.get("copyctor"):
                        cands.append(fn)
                    if op == "copyAssign" and fn["qn"].endswith("::operator=") and fn["sig"] and "&&" not in fn["sig"][0]:
                        cands.append(fn)
                if not cands and "<" in q:
                    # member of a class template that this specialisation never instantiates: use the body of a
                    # sibling specialisation of the same template (same pattern)
                    prefix = q.split("<")[0] + "<"
                    for fn in facts.functions.values():
                        if (fn.get("cls") or "").startswith(prefix):
                            if (op == "copyCtor" and fn.get("copyctor")) or (op == "copyAssign" and fn["qn"].endswith("::operator=") and fn["sig"] and "&&" not in fn["sig"][0]):
                                cands = [fn]
                                break
                if len(cands) != 1:
                    run.ob("R19.1", "%s:%s" % (key, op), None, r["file"], r["line"], "user-provided %s body not found" % what)
                    continue
                fn = cands[0]
                rp = rhs_param(fn)
                copies = False
                for n in ir.walk(fn["body"]):
                    p = path(n) if n.get("k") == "Member" else None
                    if p and p[0] == rp and len(p) >= 2 and p[1] == f["n"]:
                        copies = True
                for i in fn.get("inits", []) or []:
                    if i.get("member") == f["n"] and i.get("written"):
                        for n in ir.walk(i.get("init")):
                            p = path(n) if n.get("k") == "Member" else None
                            if p and p[0] == rp:
                                copies = True
                delegates = any(c.get("k") in ("OpCall",) and c.get("op") == "=" and (c.get("callee") or {}).get("cls") == q for c in ir.calls_in(fn["body"]))
                rebuilds = delegates
                for n in ir.walk(fn["body"]):
                    if n.get("k") in ("MCall", "OpCall", "Bin"):
                        txt = show(n)
                        if ("this.%s" % f["n"]) in txt and ("=" in txt or "clear" in txt or "[" in txt or "insert" in txt or "emplace" in txt or "begin" in txt):
                            rebuilds = True
                    if n.get("k") == "MCall" and (n.get("callee") or {}).get("cls") == q and callee_name(n) not in ("operator=",):
                        rebuilds = True   # helper such as rebuild_indexes()
                ok = (not copies) and rebuilds
                if op == "copyAssign" and copy_and_swap(facts, fn, q, rp, r):
                    # copy-and-swap: the copy constructor (its own obligation above) builds a table whose index refers to its own
                    # items; exchanging *every* member moves items and index together (container swap keeps element references
                    # valid), and the previous content leaves with the temporary
                    run.ob("R19.1", "%s:%s" % (key, op), True, fn, fn["line"],
                           "copy assignment builds a copy aside and swaps every member with it")
                    continue
                if ok and op == "copyAssign" and not delegates:
                    # the destination may already hold entries: they must be removed from the borrowing member, in the
                    # assignment itself or in a helper of the class it calls
                    fam = {fn["key"]: fn}
                    work = [fn]
                    while work:
                        g_ = work.pop()
                        for c_ in ir.calls_in(g_["body"]):
                            cal = c_.get("callee") or {}
                            if cal.get("cls") == q:
                                for h_ in facts.fns(cal.get("qn")):
                                    if h_.get("cls") == q and h_["sig"] == cal.get("sig") and h_["key"] not in fam:
                                        fam[h_["key"]] = h_
                                        work.append(h_)
                    cleared = False
                    for g_ in fam.values():
                        for c_ in ir.calls_in(g_["body"]):
                            if c_.get("k") == "MCall" and callee_name(c_) in ("clear", "swap") and path(c_.get("recv")) == ("this", f["n"]):
                                cleared = True
                        for lp_, rhs_, node_ in consumption.assignment_targets(ir.stmts(g_["body"])):
                            if lp_ == ("this", f["n"]):
                                cleared = True
                    if not cleared:
                        run.ob("R19.1", "%s:%s:stale-entries" % (key, op), False, fn, fn["line"],
                               "copy assignment re-indexes the copied items into %s without emptying it first: entries of the destination's previous content "
                               "survive and keep referring to elements that the assignment overwrote or destroyed (stale or out-of-range indices are returned)" % f["n"])
                    else:
                        run.ob("R19.1", "%s:%s:stale-entries" % (key, op), True, fn, fn["line"], "%s is emptied before it is rebuilt" % f["n"])
                run.ob("R19.1", "%s:%s" % (key, op), ok, fn, fn["line"],
                       "user-provided %s re-derives %s from the object's own storage" % (what, f["n"]) if ok else
                       ("user-provided %s copies %s from the source object" % (what, f["n"]) if copies else
                        "user-provided %s never rebuilds %s" % (what, f["n"])))
    if n_b == 0:
        run.ob("R19.1", "no-borrowing-members-in-closure", True, None, 0,
               "no class in the member closure of the block classes stores a reference-holding type: member-wise copies are independent", nontrivial=False)
    run.floor("R19.1", 1, "owners of borrowing members (or the statement that there are none)")
    run.info["records_in_closure"] = len(clos)
    run.info["borrowing_types"] = sorted(short(b) for b in borrow if b in clos)

    # ---------------- R19.2 member-complete assignment
    check_block_assignment(run, "R19.2")
    rd = facts.record("CDNS::CdnsBlockRead", rule="R19.2")
    rasg = [f for f in facts.fns("CDNS::CdnsBlockRead::operator=") if f["sig"] == ["CDNS::CdnsBlockRead &"]]
    if len(rasg) != 1:
        raise AnalysisBroken("R19.2", "CdnsBlockRead::operator=(CdnsBlockRead&) not found")
    rasg = rasg[0]
    rp = rhs_param(rasg)
    base_call = [c for c in ir.calls_in(rasg["body"]) if callee_qn(c) == "CDNS::CdnsBlock::operator="]
    okb = len(base_call) == 1
    whyb = "delegates the CdnsBlock part to CdnsBlock::operator=" if okb else "CdnsBlock::operator= is not called exactly once"
    if not base_call:
        # the base part spelled out (a shared member-wise helper expanded here): every CdnsBlock member from the same member
        blk_ = facts.record("CDNS::CdnsBlock", rule="R19.2")
        srcs_, rp_b = block_assignment_sources(facts, rasg)
        missing_ = [f_["n"] for f_ in blk_["fields"] if srcs_.get(f_["n"]) != (rp_b, f_["n"])]
        if not missing_:
            okb, whyb = True, "copies every CdnsBlock member from the same member of the source itself"
        elif len(missing_) < len(blk_["fields"]):
            whyb = "copies the CdnsBlock part member by member but leaves out %s" % ", ".join(missing_)
    run.ob("R19.2", "CdnsBlockRead::operator=:base", okb, rasg, rasg["line"], whyb)
    own = {}
    bodies = [rasg["body"]]
    # parameterless members of the class called on this object (`rewind()`) do part of the assignment's work
    for c in ir.calls_in(rasg["body"]):
        cal = c.get("callee") or {}
        if c.get("k") == "MCall" and cal.get("cls") == "CDNS::CdnsBlockRead" and not c.get("args") and path(c.get("recv")) == ("this",):
            for h in facts.fns(cal.get("qn")):
                if h.get("cls") == "CDNS::CdnsBlockRead" and not h.get("params") and h.get("body") is not None:
                    bodies.append(h["body"])
    for b_ in bodies:
        for lp, rhs, node in consumption.assignment_targets(ir.stmts(b_)):
            if lp and lp[0] == "this" and len(lp) == 2:
                own[lp[1]] = rhs
    for f in rd["fields"]:
        rhs = own.get(f["n"])
        if rhs is None:
            run.ob("R19.2", "CdnsBlockRead::operator=:%s" % f["n"], False, rasg, rasg["line"], "cursor member %s is not re-seated" % f["n"])
            continue
        uses_rhs = any(path(n) and path(n)[0] == rp for n in ir.walk(rhs) if n.get("k") in ("Member", "Ref"))
        on_own = "iterator" not in f["t"].lower() or "this.m_address_event_counts" in show(rhs)
        ok = not uses_rhs and on_own
        run.ob("R19.2", "CdnsBlockRead::operator=:%s" % f["n"], ok, rasg, rasg["line"],
               "cursor re-seated on the object's own container" if ok else
               "cursor %s is taken from the source object (%s): it iterates the source's container" % (f["n"], show(rhs)))

    # ---------------- R19.3 constructors / move operations delegate
    for q in ROOTS:
        r = facts.record(q, rule="R19.3")
        for op in ("copyCtor", "moveCtor", "copyAssign", "moveAssign"):
            kind = r["special"].get(op)
            ok = kind in ("user", "deleted")
            run.ob("R19.3", "%s:%s-user-provided" % (short(q), op), ok, r["file"], r["line"],
                   "%s is user-provided" % op if ok else "%s is %s: member-wise default bypasses the rebuilding assignment" % (op, kind), nontrivial=False)
        for fn in facts.functions.values():
            if fn.get("cls") != q:
                continue
            is_cc = fn.get("copyctor") or fn.get("movector")
            is_ma = fn["qn"].endswith("::operator=") and fn["sig"] and "&&" in fn["sig"][0]
            if not (is_cc or is_ma):
                continue
            calls = [c for c in ir.calls_in(fn["body"]) if c.get("k") == "OpCall" and c.get("op") == "=" and (c.get("callee") or {}).get("cls") == q]
            tgt = [c for c in calls if unwrap(c["args"][0]).get("k") == "Un" and show(c["args"][0]) in ("*this", "this") or path(c["args"][0]) == ("this",)]
            ok = len(calls) == 1
            why_ = "delegates to the class's own assignment operator"
            if not ok and is_cc:
                # the other sound way: a member-initialiser list (or a delegating constructor) in which no iterator /
                # pointer member is taken from the source object
                rp_ = "p:%s" % fn["params"][0]["n"] if fn.get("params") else None
                bad_ = []
                delegating = any(i.get("delegating") for i in fn.get("inits", []) or [])
                for i in fn.get("inits", []) or []:
                    fld = [f_ for f_ in r["fields"] if f_["n"] == i.get("member")]
                    if fld and ("iterator" in fld[0]["t"].lower() or fld[0]["t"].endswith("*")):
                        if any(path(n_) and path(n_)[0] == rp_ for n_ in ir.walk(i.get("init")) if n_.get("k") in ("Member", "Ref")):
                            bad_.append(i["member"])
                cursors = [f_["n"] for f_ in r["fields"] if "iterator" in f_["t"].lower() or f_["t"].endswith("*")]
                inited = set(i.get("member") for i in fn.get("inits", []) or [] if i.get("written"))
                if not bad_ and (delegating or all(c_ in inited for c_ in cursors)):
                    ok = True
                    why_ = "initialises every cursor member on the new object's own containers"
            if not ok:
                # the third way: the operation does exactly what the copy assignment does (all of them expand one shared helper)
                casg = [g_ for g_ in facts.functions.values() if g_.get("cls") == q and g_["qn"].endswith("::operator=") and g_["sig"] and
                        "&&" not in g_["sig"][0] and g_["sig"][0].replace("const ", "").startswith(q)]
                if len(casg) == 1 and casg[0] is not fn and same_effect(fn, casg[0]):
                    ok = True
                    why_ = "does exactly what the copy assignment operator does (same statements on the same members)"
            run.ob("R19.3", "%s:%s-delegates" % (short(q), "ctor(%s)" % fn["sig"][0].split("::")[-1] if is_cc else "move-assign"), ok, fn, fn["line"],
                   why_ if ok else "neither delegates to operator= nor initialises its cursor members on its own containers")
    run.floor("R19.3", 12, "special members of the block classes")
    check_index_policy(run, "R19.4")
    # "rebuilt from the object's own storage" (R19.1) is only a copy if the rebuilt index gives every item its position
    from .. import tables as _tables
    _tables.check_reindex_loops(run, "R19.5")


OVERWRITE, KEEP_FIRST = "the last of equal keys wins", "the first of equal keys wins"


def check_index_policy(run, rule):
    """R19.4: the copy operations rebuild the reverse index of a table; the rebuilt index equals the one the source built
    incrementally only if both enter equal keys the same way.  Every store into a map member keyed by a borrowing type is
    classified - `m[k] = v` / insert_or_assign overwrite, emplace / insert / try_emplace keep what is there - and all stores of
    one class must agree (a table read from a file that lists a value twice holds equal keys)."""
    facts = run.facts
    borrow = borrowing_records(facts)
    n = 0
    seen = set()
    for q, r in sorted(closure(facts, ROOTS).items()):
        if id(r) in seen:
            continue
        seen.add(id(r))
        maps = [f for f in r.get("fields", []) if ("unordered_map<" in f.get("t", "") or "std::map<" in f.get("t", "")) and mentions(f["t"], borrow)]
        for mf in maps:
            sites = []
            for fn in facts.functions.values():
                if fn.get("cls") != q or fn.get("body") is None:
                    continue
                for x in ir.walk(fn["body"]):
                    if x.get("k") == "Bin" and x.get("op") == "=":
                        l_ = unwrap_all_casts(x.get("lhs"))
                        if isinstance(l_, dict) and l_.get("k") == "OpCall" and l_.get("op") == "[]" and l_.get("args") and path(l_["args"][0]) == ("this", mf["n"]):
                            sites.append((fn, x.get("l"), OVERWRITE, "operator[] ="))
                    if x.get("k") == "MCall" and path(x.get("recv")) == ("this", mf["n"]):
                        nm = callee_name(x)
                        if nm in ("insert_or_assign",):
                            sites.append((fn, x.get("l"), OVERWRITE, nm))
                        elif nm in ("emplace", "insert", "try_emplace", "emplace_hint"):
                            sites.append((fn, x.get("l"), KEEP_FIRST, nm))
            if not sites:
                continue
            n += 1
            pol = sorted(set(s_[2] for s_ in sites))
            ok = len(pol) == 1
            by = {}
            for fn, line, p_, how in sites:
                by.setdefault(p_, []).append("%s (%s, line %s)" % (fn["qn"].split("::")[-1], how, line))
            first = sites[0]
            odd = [s_ for s_ in sites if s_[2] != first[2]]
            run.ob(rule, "%s.%s:index-stores-agree" % (short(q), mf["n"]), ok, (odd or sites)[0][0], (odd or sites)[0][1],
                   "all %d stores into %s enter equal keys the same way (%s)" % (len(sites), mf["n"], pol[0]) if ok else
                   "stores into %s disagree about equal keys: %s. An index rebuilt by a copy then resolves a value the table holds twice to a "
                   "different position than the index of the table it was copied from" % (
                       mf["n"], "; ".join("%s in %s" % (p_, ", ".join(sorted(set(v_)))) for p_, v_ in sorted(by.items()))))
    run.floor(rule, 1, "reverse indexes keyed by a borrowing type")
