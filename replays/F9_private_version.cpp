#include "src/cdns.h"
#include <sstream>
#include <iostream>
#include <unistd.h>
int main(){
  using namespace CDNS;
  FilePreamble fp; fp.m_private_version = boost::none;
  int fds[2]; if (pipe(fds)) return 2;
  { CdnsEncoder enc(fds[1], CborOutputCompression::NO_COMPRESSION); fp.write(enc); }
  char buf[4096]; ssize_t n = read(fds[0], buf, sizeof buf);
  std::istringstream is(std::string(buf, n)); CdnsDecoder d(is);
  FilePreamble back; back.read(d);
  std::cout << "written without private version; read back: " << (back.m_private_version ? "PRESENT=" + std::to_string(*back.m_private_version) : std::string("absent")) << "\n";
  return back.m_private_version ? 1 : 0;
}
