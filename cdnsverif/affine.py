"""Affine (linear) value analysis for straight-line regions.

A value is a linear form  c0 + sum(ci * Xi)  over symbols Xi = the values the region's variables hold at region
entry.  The interpreter walks a statement list in order, keeps an environment  variable key -> linear form,  and hands
every call to a hook that may record it and apply the callee's summary.  Anything it cannot express (branches,
non-linear arithmetic, unknown writes) raises NotAffine: callers report *unrecognised*, never a verdict.

This is Karr-style affine relation analysis restricted to straight-line code; it decides equalities such as
"the source pointer advanced by exactly the number of bytes copied" independently of how the code spells or orders the
updates (`n -= m_avail; p += m_avail` or `chunk = m_avail; ... p += chunk; n -= chunk`)."""
from . import ir
from .ir import path, path_str, unwrap, const_value


class NotAffine(Exception):
    pass


class Lin:
    __slots__ = ("c", "t")

    def __init__(self, c=0, t=None):
        self.c = c
        self.t = dict(t or {})

    @staticmethod
    def sym(name):
        return Lin(0, {name: 1})

    def __add__(self, o):
        t = dict(self.t)
        for k, v in o.t.items():
            t[k] = t.get(k, 0) + v
            if t[k] == 0:
                del t[k]
        return Lin(self.c + o.c, t)

    def __neg__(self):
        return Lin(-self.c, {k: -v for k, v in self.t.items()})

    def __sub__(self, o):
        return self + (-o)

    def scale(self, k):
        if k == 0:
            return Lin(0)
        return Lin(self.c * k, {s: v * k for s, v in self.t.items()})

    def is_const(self):
        return not self.t

    def __eq__(self, o):
        return isinstance(o, Lin) and self.c == o.c and self.t == o.t

    def __hash__(self):
        return hash((self.c, tuple(sorted(self.t.items()))))

    def __repr__(self):
        parts = []
        for k in sorted(self.t):
            v = self.t[k]
            parts.append(("%s" % k) if v == 1 else ("-%s" % k if v == -1 else "%d*%s" % (v, k)))
        if self.c or not parts:
            parts.append(str(self.c))
        return " + ".join(parts).replace("+ -", "- ")


def key_of(e):
    p = path(e)
    return path_str(p) if p is not None else None


def ev(e, env):
    """Linear form of expression e under env (key -> Lin); unknown keys become their own entry symbol."""
    e0 = e
    e = ir.unwrap_all_casts(e)
    if not isinstance(e, dict):
        raise NotAffine("?")
    cv = const_value(e0)
    if cv is None:
        cv = const_value(e)
    if cv is not None and not isinstance(cv, str):
        return Lin(int(cv))
    k = e.get("k")
    key = key_of(e)
    if key is not None and k in ("Ref", "Member", "Un"):
        if key not in env:
            env[key] = Lin.sym(key)
        return env[key]
    if k == "Bin":
        op = e["op"]
        if op in ("+", "-"):
            a, b = ev(e["lhs"], env), ev(e["rhs"], env)
            return a + b if op == "+" else a - b
        if op == "*":
            a, b = ev(e["lhs"], env), ev(e["rhs"], env)
            if a.is_const():
                return b.scale(a.c)
            if b.is_const():
                return a.scale(b.c)
        raise NotAffine("operator %s" % op)
    if k == "Un" and e.get("op") == "-":
        return -ev(e["e"], env)
    if k == "Un" and e.get("op") == "+":
        return ev(e["e"], env)
    if k == "Sizeof" or k == "SizeOf":
        raise NotAffine("sizeof without constant value")
    raise NotAffine("%s: %s" % (k, ir.show(e)[:60]))


def run(stmts, env, on_call=None):
    """Interpret a straight-line statement list.  on_call(call, env) handles Call/MCall expression statements (and may
    update env); returning False means the call is not understood."""
    for s in stmts:
        u = unwrap(s)
        if not isinstance(u, dict):
            continue
        k = u.get("k")
        if k == "Block":
            run(u.get("s", []), env, on_call)
            continue
        if k == "Null":
            continue
        if k == "Decl":
            for v in u.get("vars", []):
                if "n" not in v:
                    continue
                key = "l:%s#%s" % (v["n"], v["id"])
                if v.get("init") is not None:
                    try:
                        env[key] = ev(v["init"], env)
                    except NotAffine:
                        env[key] = Lin.sym(key + "@decl")
                else:
                    env[key] = Lin.sym(key + "@uninit")
            continue
        if k == "Bin" and u.get("op", "").endswith("=") and u["op"] not in ("==", "!=", "<=", ">="):
            key = key_of(u.get("lhs"))
            if key is None:
                raise NotAffine("assignment to %s" % ir.show(u.get("lhs")))
            if u["op"] == "=":
                env[key] = ev(u["rhs"], env)
            elif u["op"] in ("+=", "-="):
                cur = ev(u["lhs"], env)
                r = ev(u["rhs"], env)
                env[key] = cur + r if u["op"] == "+=" else cur - r
            else:
                raise NotAffine("operator %s" % u["op"])
            continue
        if k == "Un" and u.get("op") in ("pre++", "post++", "pre--", "post--"):
            key = key_of(u.get("e"))
            if key is None:
                raise NotAffine("update of %s" % ir.show(u.get("e")))
            cur = ev(u["e"], env)
            env[key] = cur + Lin(1 if "++" in u["op"] else -1)
            continue
        if k in ("Call", "MCall", "OpCall"):
            if on_call is None or on_call(u, env) is False:
                raise NotAffine("call %s" % ir.show(u)[:60])
            continue
        if k == "Return":
            if on_call is not None:
                on_call(u, env)
            continue
        raise NotAffine("statement %s" % k)
    return env


# ------------------------------------------------------------------------------------------------ paths with branches
#
# explore() follows every path through a statement list whose branch conditions are comparisons of affine forms.
# A comparison the assumptions do not decide splits the exploration (both outcomes, each recorded as an assumption);
# std::min / std::max of two affine forms split the same way.  Loops inside the region are not followed (NotAffine).

class NeedSplit(Exception):
    def __init__(self, d):
        self.d = d


def sign_of(d, assumptions):
    """'<0' | '==0' | '>0' | '>=0' | '<=0' | '!=0' | None for the linear form d under the assumptions."""
    if d.is_const():
        return "<0" if d.c < 0 else ("==0" if d.c == 0 else ">0")
    for (a, rel) in assumptions:
        if a == d:
            return rel
        if a == -d:
            return {"<0": ">0", ">0": "<0", ">=0": "<=0", "<=0": ">=0", "==0": "==0", "!=0": "!=0"}[rel]
    return None


def decide_cmp(op, d, assumptions):
    """Truth of (lhs op rhs) with d = lhs - rhs, or None."""
    s = sign_of(d, assumptions)
    if s is None:
        return None
    table = {
        "<": {"<0": True, "==0": False, ">0": False, ">=0": False, "<=0": None, "!=0": None},
        "<=": {"<0": True, "==0": True, ">0": False, ">=0": None, "<=0": True, "!=0": None},
        ">": {"<0": False, "==0": False, ">0": True, ">=0": None, "<=0": False, "!=0": None},
        ">=": {"<0": False, "==0": True, ">0": True, ">=0": True, "<=0": None, "!=0": None},
        "==": {"<0": False, "==0": True, ">0": False, ">=0": None, "<=0": None, "!=0": False},
        "!=": {"<0": True, "==0": False, ">0": True, ">=0": None, "<=0": None, "!=0": True},
    }
    return table[op][s]


def ev2(e, env, assumptions):
    """ev() extended with std::min / std::max of affine forms (decided by the assumptions, else NeedSplit)."""
    u = ir.unwrap_all_casts(e)
    if isinstance(u, dict) and u.get("k") == "Call" and (ir.callee_qn(u) or "").split("<")[0] in ("std::min", "std::max") and len(u.get("args", [])) == 2:
        a, b = ev2(u["args"][0], env, assumptions), ev2(u["args"][1], env, assumptions)
        lt = decide_cmp("<", a - b, assumptions)
        if lt is None:
            raise NeedSplit(a - b)
        is_min = (ir.callee_qn(u) or "").split("<")[0] == "std::min"
        return (a if lt else b) if is_min else (b if lt else a)
    if isinstance(u, dict) and u.get("k") == "Bin" and u.get("op") in ("+", "-"):
        a, b = ev2(u["lhs"], env, assumptions), ev2(u["rhs"], env, assumptions)
        return a + b if u["op"] == "+" else a - b
    return ev(e, env)


def cond_truth(c, env, assumptions):
    """True / False for a branch condition, raising NeedSplit(d) when a comparison is open."""
    u = unwrap(c)
    if not isinstance(u, dict):
        raise NotAffine("condition")
    k = u.get("k")
    if k == "Un" and u.get("op") == "!":
        return not cond_truth(u["e"], env, assumptions)
    if k == "Bin" and u.get("op") == "&&":
        return cond_truth(u["lhs"], env, assumptions) and cond_truth(u["rhs"], env, assumptions)
    if k == "Bin" and u.get("op") == "||":
        return cond_truth(u["lhs"], env, assumptions) or cond_truth(u["rhs"], env, assumptions)
    if k == "Lit":
        return bool(u.get("v"))
    if k == "Bin" and u.get("op") in ("<", "<=", ">", ">=", "==", "!="):
        d = ev2(u["lhs"], env, assumptions) - ev2(u["rhs"], env, assumptions)
        r = decide_cmp(u["op"], d, assumptions)
        if r is None:
            raise NeedSplit(d)
        return r
    cv = const_value(c)
    if cv is not None:
        return bool(cv)
    raise NotAffine("condition %s" % ir.show(u)[:50])


def explore(stmts, env0, on_call, assumptions=(), depth=0):
    """All paths through a loop-free statement list.  Returns [(outcome, env, events, assumptions)] with outcome in
    'end' | 'break' | 'continue' | 'return'.  on_call(call, env, events, assumptions) records events / applies summaries."""
    if depth > 8:
        raise NotAffine("too many case splits")
    try:
        env = dict(env0)
        events = []
        out = _run2(list(stmts), env, events, list(assumptions), on_call)
        return [(out, env, events, tuple(assumptions))]
    except NeedSplit as ns:
        res = []
        cur = sign_of(ns.d, assumptions)
        options = {None: ("<0", ">=0"), ">=0": ("==0", ">0"), "<=0": ("<0", "==0"), "!=0": ("<0", ">0")}.get(cur)
        if options is None:
            raise NotAffine("comparison stays open under %s" % cur)
        rest = tuple(a for a in assumptions if a[0] != ns.d and a[0] != -ns.d)
        for rel in options:
            res += explore(stmts, env0, on_call, rest + ((ns.d, rel),), depth + 1)
        return res


def _run2(stmts, env, events, assumptions, on_call):
    for s in stmts:
        u = unwrap(s)
        if not isinstance(u, dict):
            continue
        k = u.get("k")
        if k == "Block":
            r = _run2(u.get("s", []), env, events, assumptions, on_call)
            if r != "end":
                return r
            continue
        if k == "Null":
            continue
        if k == "If":
            t = cond_truth(u["cond"], env, assumptions)
            br = u.get("then") if t else u.get("else")
            if br is not None:
                r = _run2(ir.stmts(br), env, events, assumptions, on_call)
                if r != "end":
                    return r
            continue
        if k == "Break":
            return "break"
        if k == "Continue":
            return "continue"
        if k == "Return":
            events.append(("return", ev2(u["e"], env, assumptions) if u.get("e") is not None else None, None, None, u))
            return "return"
        if k == "Decl":
            for v in u.get("vars", []):
                if "n" not in v:
                    continue
                key = "l:%s#%s" % (v["n"], v["id"])
                if v.get("init") is not None:
                    try:
                        env[key] = ev2(v["init"], env, assumptions)
                    except NotAffine:
                        env[key] = Lin.sym(key + "@decl")
                else:
                    env[key] = Lin.sym(key + "@uninit")
            continue
        if k == "Bin" and u.get("op", "").endswith("=") and u["op"] not in ("==", "!=", "<=", ">="):
            key = key_of(u.get("lhs"))
            if key is None:
                raise NotAffine("assignment to %s" % ir.show(u.get("lhs")))
            if u["op"] == "=":
                env[key] = ev2(u["rhs"], env, assumptions)
            elif u["op"] in ("+=", "-="):
                cur = ev2(u["lhs"], env, assumptions)
                r = ev2(u["rhs"], env, assumptions)
                env[key] = cur + r if u["op"] == "+=" else cur - r
            else:
                raise NotAffine("operator %s" % u["op"])
            continue
        if k == "Un" and u.get("op") in ("pre++", "post++", "pre--", "post--"):
            key = key_of(u.get("e"))
            if key is None:
                raise NotAffine("update of %s" % ir.show(u.get("e")))
            env[key] = ev2(u["e"], env, assumptions) + Lin(1 if "++" in u["op"] else -1)
            continue
        if k in ("Call", "MCall", "OpCall"):
            if on_call(u, env, events, assumptions) is False:
                raise NotAffine("call %s" % ir.show(u)[:60])
            continue
        raise NotAffine("statement %s" % k)
    return "end"
