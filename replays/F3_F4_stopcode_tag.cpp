#include "src/cdns.h"
#include <sstream>
#include <iostream>
int main(){
  using namespace CDNS;
  int bad=0;
  { // indefinite text string "ab" "c" then uint 7
    std::string in("\x7f\x62" "ab" "\x61" "c" "\xff\x07", 8);
    std::istringstream is(in); CdnsDecoder d(is);
    try { auto s=d.read_textstring(); auto v=d.read_unsigned(); std::cout<<"chunked: "<<s<<" next="<<v<<"\n"; if(s!="abc"||v!=7) bad=1; }
    catch(std::exception&e){ std::cout<<"chunked FAILED: "<<e.what()<<"\n"; bad=1; }
  }
  { // skip indefinite array [1,2] then uint 9
    std::string in("\x9f\x01\x02\xff\x09", 5);
    std::istringstream is(in); CdnsDecoder d(is);
    try { d.skip_item(); auto v=d.read_unsigned(); std::cout<<"skip indef: next="<<v<<"\n"; if(v!=9) bad=1; }
    catch(std::exception&e){ std::cout<<"skip indef FAILED: "<<e.what()<<"\n"; bad=1; }
  }
  { // skip tag 1 (content uint 5) then uint 9
    std::string in("\xc1\x05\x09", 3);
    std::istringstream is(in); CdnsDecoder d(is);
    try { d.skip_item(); auto v=d.read_unsigned(); std::cout<<"skip tag: next="<<v<<"\n"; if(v!=9) bad=1; }
    catch(std::exception&e){ std::cout<<"skip tag FAILED: "<<e.what()<<"\n"; bad=1; }
  }
  return bad;
}
