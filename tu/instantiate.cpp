// Verif-owned translation unit: explicit instantiations of the member templates that the
// library itself never instantiates (they are instantiated by user code / python bindings).
// Only includes the repository's umbrella header; contains no logic of its own.
#include "src/cdns.h"

template CDNS::CdnsExporter::CdnsExporter(CDNS::FilePreamble&, const std::string&, CDNS::CborOutputCompression);
template CDNS::CdnsExporter::CdnsExporter(CDNS::FilePreamble&, const int&, CDNS::CborOutputCompression);
template std::size_t CDNS::CdnsExporter::rotate_output<std::string>(const std::string&, bool);
template std::size_t CDNS::CdnsExporter::rotate_output<int>(const int&, bool);
template CDNS::CdnsEncoder::CdnsEncoder(const std::string&, CDNS::CborOutputCompression);
template CDNS::CdnsEncoder::CdnsEncoder(const int&, CDNS::CborOutputCompression);
template void CDNS::CdnsEncoder::rotate_output<std::string>(const std::string&);
template void CDNS::CdnsEncoder::rotate_output<int>(const int&);

// Block tables: instantiate every member (the library itself only instantiates the members it calls,
// e.g. never the copy constructor), so that the rules see the bodies user code would get.
template class CDNS::BlockTable<CDNS::StringItem>;
template class CDNS::BlockTable<CDNS::ClassType>;
template class CDNS::BlockTable<CDNS::QueryResponseSignature>;
template class CDNS::BlockTable<CDNS::IndexListItem>;
template class CDNS::BlockTable<CDNS::Question>;
template class CDNS::BlockTable<CDNS::RR>;
template class CDNS::BlockTable<CDNS::MalformedMessageData>;
