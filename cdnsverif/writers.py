"""Shared helpers for the output-side rules (C13-C16): ordered call sequences, handlers, writer classes."""
from . import ir
from .ir import path, path_str, unwrap, unwrap_all_casts, callee_name, callee_qn, show, show_f, Env, conjuncts

BASE = "CDNS::BaseCborOutputWriter"
WSTR = "CDNS::Writer<std::basic_string<char>>"
WINT = "CDNS::Writer<int>"
PLAIN = "CDNS::CborOutputWriter"
GZ = "CDNS::GzipCborOutputWriter"
XZ = "CDNS::XzCborOutputWriter"
ENC = "CDNS::CdnsEncoder"
EXP = "CDNS::CdnsExporter"


def short(q):
    return q.replace("CDNS::", "").replace("std::basic_string<char>", "std::string")


def ordered_calls(fn, env=None):
    """[(call node, guard, in_handler, in_loop, stmt)] in structured order (lambdas excluded)."""
    env = env or Env(fn["body"])
    out = []
    for st, g, loops in ir.guarded_statements(fn["body"], env):
        if st.get("k") == "IfCond":
            nodes = [st["cond"]]
        elif st.get("k") in ("LoopHead",):
            n = st["node"]
            nodes = [n.get("cond")] if n.get("cond") is not None else []
        elif st.get("k") == "SwitchHead":
            nodes = [st["node"].get("cond")]
        else:
            nodes = [st]
        in_handler = any(l.get("k") == "Handler" for l in loops)
        in_loop = any(l.get("k") in ("While", "For", "Do", "RangeFor") for l in loops) or st.get("k") == "LoopHead"
        for nd in nodes:
            for c in ir.calls_in(nd):
                out.append((c, g, in_handler, in_loop, st))
    return out


def names(calls):
    return [callee_name(c[0]) for c in calls]


def handlers(fn):
    """[(try node, handler dict, swallows?)] — a handler swallows when it neither rethrows nor throws."""
    out = []
    unwinding = set()
    for n in ir.walk(fn["body"]):
        if n.get("k") == "Try" and n.get("synthetic"):
            for h in n.get("handlers", []):
                for x in ir.walk(h.get("body")):
                    unwinding.add(id(x))
    for n in ir.walk(fn["body"]):
        if n.get("k") == "Try" and id(n) not in unwinding:
            for h in n.get("handlers", []):
                throws = any(x.get("k") == "Throw" for x in ir.walk(h.get("body")))
                out.append((n, h, not throws))
    return out


def _derives(facts, cls, base, depth=0):
    rec = facts.records.get(cls) or {}
    for b in rec.get("bases", []):
        if b["t"] == base or (depth < 6 and _derives(facts, b["t"], base, depth + 1)):
            return True
    return False


def overrides_of(facts, method):
    """All in-repo definitions named <cls>::<method> whose class derives from BaseCborOutputWriter."""
    out = []
    for f in facts.functions.values():
        if f["qn"].split("::")[-1] != method:
            continue
        cls = f.get("cls") or ""
        rec = facts.records.get(cls)
        if rec is None:
            continue
        if f.get("flattened"):
            continue          # body of an intermediate base: analysed as the copy each leaf class inherits (hierarchy.py)
        if cls == BASE or _derives(facts, cls, BASE):
            out.append(f)
    return sorted(out, key=lambda f: (f["file"], f["line"]))
