"""Helpers over the extractor's JSON tree: traversal, access paths, boost::optional idioms,
condition normalisation (guard atoms), structured control flow."""

# ------------------------------------------------------------------ traversal

CHILD_KEYS = ("s", "cond", "then", "else", "init", "inc", "body", "range", "sub", "val", "rhs",
              "lhs", "e", "args", "recv", "base", "idx", "a", "b", "c", "vars", "handlers", "fn",
              "size", "condvar", "vla")


def children(n):
    """Direct child nodes (dicts) of a node, in source order where it matters."""
    if not isinstance(n, dict):
        return
    for k in CHILD_KEYS:
        v = n.get(k)
        if v is None:
            continue
        if isinstance(v, dict):
            yield v
        elif isinstance(v, list):
            for x in v:
                if isinstance(x, dict):
                    yield x


def walk(n):
    """Pre-order walk over every node (including the root)."""
    if isinstance(n, dict):
        yield n
        for c in children(n):
            yield from walk(c)
    elif isinstance(n, list):
        for x in n:
            yield from walk(x)


def walk_with_parents(n, parents=()):
    if isinstance(n, dict):
        yield n, parents
        p2 = parents + (n,)
        for c in children(n):
            yield from walk_with_parents(c, p2)


_NORMAL_PATH = {}


def normal_path(fn):
    """The function as it runs when no exception unwinds through a guard object: a `try` written out for a guard by the
    normalisation (its handler runs the guard's action and throws the exception on) is its body.  Rules that speak about
    what a successful call writes and returns look at this view; what a guard does while unwinding is the business of the
    rules that ask about failures (R16.6, R12.5)."""
    if fn is None or fn.get("body") is None:
        return fn
    key = (id(fn), id(fn["body"]))
    if key in _NORMAL_PATH:
        return _NORMAL_PATH[key][1]
    if not any(x.get("k") == "Try" and x.get("synthetic") for x in walk(fn["body"])):
        _NORMAL_PATH[key] = (fn, fn)
        return fn

    def rec(n):
        if isinstance(n, list):
            out = []
            for x in n:
                if isinstance(x, dict) and x.get("k") == "Try" and x.get("synthetic"):
                    out.extend(rec(stmts(x.get("body"))))
                else:
                    out.append(rec(x))
            return out
        if not isinstance(n, dict):
            return n
        if n.get("k") == "Try" and n.get("synthetic"):
            return {"k": "Block", "l": n.get("l"), "s": rec(stmts(n.get("body")))}
        return {kk: (rec(vv) if isinstance(vv, (dict, list)) else vv) for kk, vv in n.items()}
    g = dict(fn)
    g["body"] = rec(fn["body"])
    _NORMAL_PATH[key] = (fn, g)         # (keeps fn alive so that the ids stay unique)
    return g


def stmts(n):
    """Statement list of a Block (or a single statement wrapped in a list)."""
    if n is None:
        return []
    if n.get("k") == "Block":
        return n.get("s", [])
    return [n]


def is_stmt_kind(n):
    return n.get("k") in ("Block", "If", "While", "Do", "For", "RangeFor", "Switch", "Case", "Default",
                          "Return", "Break", "Continue", "Null", "Decl", "Try", "Opaque", "OtherStmt")


# ------------------------------------------------------------------ expressions

def unwrap(e):
    """Strip implicit casts, default-arg wrappers and user-defined-conversion wrappers that do not
    change meaning for the rules."""
    while isinstance(e, dict):
        k = e.get("k")
        if k == "Cast" and e.get("style") == "implicit":
            e = e.get("e")
        elif k in ("DefaultArg", "DefaultInit", "StdInitList"):
            e = e.get("e")
        elif k == "Construct" and e.get("copymove") and len(e.get("args", [])) == 1:
            e = e["args"][0]
        elif k == "Call" and len(e.get("args", [])) == 1 and _is_move(e):
            # std::move(x) / std::forward<T>(x) name the object x
            e = e["args"][0]
        else:
            break
    return e


def _is_move(e):
    q = ((e.get("callee") or {}).get("qn") or "").split("<")[0]
    return q in ("std::move", "std::forward", "std::move_if_noexcept")


def unwrap_all_casts(e):
    while isinstance(e, dict):
        k = e.get("k")
        if k == "Cast":
            e = e.get("e")
        elif k in ("DefaultArg", "DefaultInit"):
            e = e.get("e")
        elif k == "Construct" and e.get("copymove") and len(e.get("args", [])) == 1:
            e = e["args"][0]
        elif k == "Call" and len(e.get("args", [])) == 1 and _is_move(e):
            e = e["args"][0]
        else:
            break
    return e


def callee_qn(e):
    c = e.get("callee") if isinstance(e, dict) else None
    return c.get("qn") if c else None


def callee_name(e):
    q = callee_qn(e)
    if not q:
        return None
    # strip template args of classes before taking the last component
    depth = 0
    last = 0
    for i, ch in enumerate(q):
        if ch == "<":
            depth += 1
        elif ch == ">":
            depth -= 1
        elif ch == ":" and depth == 0 and i + 1 < len(q) and q[i + 1] == ":":
            last = i + 2
    return q[last:]


def is_optional_type(t):
    return isinstance(t, str) and (t.startswith("boost::optional<") or t.startswith("const boost::optional<"))


OPTIONAL_PRESENT = ("operator bool", "is_initialized", "has_value")
OPTIONAL_PAYLOAD = ("value", "get", "operator*", "operator->", "get_ptr")


def path(e):
    """Access path of an lvalue-ish expression as a tuple of strings, or None.
    this.x.y -> ('this','x','y'); parameter p -> ('p:p',); local -> ('l:name#id',);
    payload of an optional -> path + ('$',)."""
    e = unwrap(e)
    if not isinstance(e, dict):
        return None
    k = e.get("k")
    if k == "This":
        return ("this",)
    if k == "Ref":
        d = e.get("d")
        if d == "param":
            return ("p:%s" % e["n"],)
        if d in ("local", "staticlocal"):
            return ("l:%s#%s" % (e["n"], e.get("id")),)
        if d == "global":
            return ("g:%s" % e.get("qn"),)
        return None
    if k == "Member" and e.get("field"):
        b = path(e.get("base"))
        if b is None:
            return None
        return b + (e["n"],)
    if k == "MCall":
        nm = callee_name(e)
        recv = e.get("recv")
        if recv is not None and is_optional_type(unwrap(recv).get("t", "")) and nm in OPTIONAL_PAYLOAD:
            b = path(recv)
            return None if b is None else b + ("$",)
        return None
    if k == "OpCall" and e.get("op") in ("*", "->") and e.get("args"):
        a0 = e["args"][0]
        if is_optional_type(unwrap(a0).get("t", "")):
            b = path(a0)
            return None if b is None else b + ("$",)
        return None
    if k == "Un" and e.get("op") == "*":
        return path(e.get("e"))
    if k == "Cast":
        return path(e.get("e"))
    return None


def path_str(p):
    return ".".join(p) if p else "?"


def show(e, depth=0):
    """Compact human-readable rendering of an expression (for reports)."""
    e0 = e
    e = unwrap(e)
    if not isinstance(e, dict):
        return "?"
    if depth > 6:
        return "..."
    k = e.get("k")
    p = path(e)
    if p is not None:
        return path_str(p)
    if k == "Lit":
        return str(e.get("v"))
    if k == "Str":
        return '"%s"' % e.get("v")
    if k == "Ref":
        if e.get("d") == "enumconst":
            return e.get("qn", e.get("n"))
        return e.get("n", "?")
    if k in ("Call", "MCall", "Construct"):
        args = ", ".join(show(a, depth + 1) for a in e.get("args", []))
        r = ""
        if k == "MCall" and e.get("recv") is not None:
            r = show(e["recv"], depth + 1) + "."
        return "%s%s(%s)" % (r, callee_name(e) or "?", args)
    if k == "OpCall":
        a = e.get("args", [])
        if len(a) == 1:
            return "%s%s" % (e.get("op"), show(a[0], depth + 1))
        if len(a) == 2:
            return "(%s %s %s)" % (show(a[0], depth + 1), e.get("op"), show(a[1], depth + 1))
        return "op%s(...)" % e.get("op")
    if k == "Bin":
        return "(%s %s %s)" % (show(e["lhs"], depth + 1), e["op"], show(e["rhs"], depth + 1))
    if k == "Un":
        return "%s%s" % (e["op"], show(e["e"], depth + 1))
    if k == "Cond":
        return "(%s ? %s : %s)" % (show(e["c"], depth + 1), show(e["a"], depth + 1), show(e["b"], depth + 1))
    if k == "Cast":
        return "(%s)%s" % (e.get("t"), show(e.get("e"), depth + 1))
    if k == "Member":
        return "%s.%s" % (show(e.get("base"), depth + 1), e.get("n"))
    if k == "Index":
        return "%s[%s]" % (show(e.get("base"), depth + 1), show(e.get("idx"), depth + 1))
    if k == "Lambda":
        return "[lambda]"
    return "<%s>" % k


def const_value(e):
    """Compile-time integer value attached by the extractor (or literal value)."""
    if not isinstance(e, dict):
        return None
    if "cv" in e:
        return e["cv"]
    u = unwrap(e)
    if isinstance(u, dict):
        if "cv" in u:
            return u["cv"]
        if u.get("k") == "Lit" and isinstance(u.get("v"), (int, bool)) and not u.get("float"):
            return int(u["v"])
    return None


def enum_ref(e):
    """If e is get_map_index(Enum::x) or Enum::x (possibly cast), return (enum qn, enumerator name)."""
    e = unwrap_all_casts(e)
    if not isinstance(e, dict):
        return None
    if e.get("k") == "Call" and callee_qn(e) == "CDNS::get_map_index" and e.get("args"):
        return enum_ref(e["args"][0])
    if e.get("k") == "Ref" and e.get("d") == "enumconst":
        return (e.get("enum"), e.get("n"))
    return None


# ------------------------------------------------------------------ conditions -> formulas
#
# Formula grammar (tuples, hashable):
#   ('T',) ('F',)
#   ('present', path)            optional has a value
#   ('nonempty', path)           container size() != 0
#   ('nz', key)                  integer expression != 0   (key = canonical string or path)
#   ('bit', path/str, enum, name)  (x & Enum::name) != 0
#   ('cmp', op, lhs_str, rhs_str)
#   ('call', text)               opaque boolean call
#   ('not', f) ('and', f1, f2, ...) ('or', f1, f2, ...)

def f_not(f):
    if f[0] == "not":
        return f[1]
    if f[0] == "T":
        return ("F",)
    if f[0] == "F":
        return ("T",)
    if f[0] == "cmp":
        # canonical comparison operators are == != < <= only
        op, a, b = f[1], f[2], f[3]
        if op == "==":
            return ("cmp", "!=", a, b)
        if op == "!=":
            return ("cmp", "==", a, b)
        if op == "<":       # !(a < b)  ==  b <= a
            return ("cmp", "<=", b, a)
        if op == "<=":      # !(a <= b) ==  b < a
            return ("cmp", "<", b, a)
        if op == ">":
            return ("cmp", "<=", a, b)
        if op == ">=":
            return ("cmp", "<", a, b)
    # De Morgan: negations are pushed down to the atoms, so that `if (!a || !b) <skip> else <do>` and
    # `if (a && b) <do>` give <do> the same guard
    if f[0] == "or":
        return f_and(*[f_not(x) for x in f[1:]])
    if f[0] == "and":
        return f_or(*[f_not(x) for x in f[1:]])
    return ("not", f)


def f_and(*fs):
    out = []
    for f in fs:
        if f[0] == "T":
            continue
        if f[0] == "F":
            return ("F",)
        if f[0] == "and":
            out.extend(f[1:])
        else:
            out.append(f)
    out2 = []
    for f in out:
        if f not in out2:
            out2.append(f)
    # absorption: a && (a || b) is a; contradiction: a && !a is false
    for f in list(out2):
        if f[0] == "or" and any(g in f[1:] for g in out2 if g is not f):
            out2.remove(f)
    for f in out2:
        if ("not", f) in out2:
            return ("F",)
    if not out2:
        return ("T",)
    if len(out2) == 1:
        return out2[0]
    return ("and",) + tuple(sorted(out2, key=repr))


def f_or(*fs):
    out = []
    for f in fs:
        if f[0] == "F":
            continue
        if f[0] == "T":
            return ("T",)
        if f[0] == "or":
            out.extend(f[1:])
        else:
            out.append(f)
    out2 = []
    for f in out:
        if f not in out2:
            out2.append(f)
    if not out2:
        return ("F",)
    if len(out2) == 1:
        return out2[0]
    return ("or",) + tuple(sorted(out2, key=repr))


def conjuncts(f):
    if f[0] == "and":
        return list(f[1:])
    if f[0] == "T":
        return []
    return [f]


class Env:
    """Resolves local variables to their single reaching definition (declaration initialiser),
    when the variable is never re-assigned in the function."""

    def __init__(self, fn_body=None):
        self.defs = {}      # local key 'l:name#id' -> init expr
        self.assigned = set()
        self.byref_only = set()      # locals marked assigned only because they are passed by non-const reference
        self.mods = {}               # local -> kinds of in-place updates seen ('inc' / 'dec' / 'other')
        if fn_body is not None:
            self.scan(fn_body)

    def scan(self, body):
        for n in walk(body):
            k = n.get("k")
            if k == "Decl":
                for v in n.get("vars", []):
                    if "n" in v and v.get("init") is not None:
                        self.defs["l:%s#%s" % (v["n"], v["id"])] = v["init"]
            elif k == "Bin" and n.get("op", "").endswith("=") and n["op"] not in ("==", "!=", "<=", ">="):
                p = path(n.get("lhs"))
                if p and len(p) == 1:
                    self.assigned.add(p[0])
                    cv = const_value(n.get("rhs"))
                    kind = "other"
                    if cv is not None and not isinstance(cv, str) and int(cv) >= 0 and n["op"] in ("+=", "-="):
                        kind = "inc" if n["op"] == "+=" else "dec"
                    self.mods.setdefault(p[0], []).append(kind)
            elif k == "Un" and n.get("op") in ("pre++", "pre--", "post++", "post--"):
                p = path(n.get("e"))
                if p and len(p) == 1:
                    self.assigned.add(p[0])
                    self.mods.setdefault(p[0], []).append("inc" if "++" in n["op"] else "dec")
            elif k == "OpCall" and n.get("op", "").endswith("=") and n["op"] not in ("==", "!=", "<=", ">="):
                a = n.get("args", [])
                if a:
                    p = path(a[0])
                    if p and len(p) == 1:
                        self.assigned.add(p[0])
            if k in ("Call", "MCall", "Construct", "OpCall"):
                # a local handed to a non-const reference parameter may be written by the callee
                sig = (n.get("callee") or {}).get("sig", [])
                args = n.get("args", [])
                if k == "OpCall" and (n.get("callee") or {}).get("cls"):
                    args = args[1:]
                for a, t in zip(args, sig):
                    if t.endswith("&") and not t.startswith("const ") and not t.endswith("&&"):
                        p = path(a)
                        if p and len(p) == 1:
                            if p[0] not in self.assigned:
                                self.assigned.add(p[0])
                                self.byref_only.add(p[0])

    def definition(self, p):
        """Initialiser of a never-reassigned local, else None."""
        if p and len(p) == 1 and p[0].startswith("l:") and p[0] not in self.assigned:
            return self.defs.get(p[0])
        return None

    def monotone(self, key):
        """('inc'|'dec', initialiser) for a local whose only writes after its declaration are steps in one
        direction (++ / += c, or -- / -= c with c >= 0) — its value never passes the initial one the other way."""
        kinds = set(self.mods.get(key, []))
        if key in self.byref_only or key not in self.defs or len(kinds) != 1 or "other" in kinds:
            return None
        return (kinds.pop(), self.defs[key])

    def resolve_ref_path(self, p):
        """Follow `const T& x = <path expr>` / `T x = <path expr>` chains for locals used as aliases
        of a member path (e.g. `const uint8_t& rr_hints = m_block_parameters...rr_hints`)."""
        seen = 0
        while p and p[0].startswith("l:") and seen < 8:
            d = self.definition((p[0],))
            if d is None:
                break
            dp = path(d)
            if dp is None:
                break
            p = dp + p[1:]
            seen += 1
        return p


def size_call_path(e):
    """c.size() -> path(c)"""
    e = unwrap(e)
    if isinstance(e, dict) and e.get("k") == "MCall" and callee_name(e) == "size" and not e.get("args"):
        return path(e.get("recv"))
    return None


def int_key(e, env=None):
    """Canonical key of an integer-valued expression used in nz/cmp atoms."""
    e = unwrap(e)
    sp = size_call_path(e)
    if sp is not None:
        if env is not None:
            sp = env.resolve_ref_path(sp)
        return "size(%s)" % path_str(sp)
    p = path(e)
    if p is not None:
        if len(p) == 1 and (p[0].startswith("l:") or (e.get("k") == "Ref" and e.get("d") == "global" and e.get("const"))):
            # a constexpr / const local or namespace/class-scope constant with a constant initialiser is that constant
            cv = const_value(e)
            if cv is not None and not isinstance(cv, str):
                return str(int(cv))
        if env is not None:
            p = env.resolve_ref_path(p)
        return path_str(p)
    cv = const_value(e)
    if cv is not None:
        return str(cv)
    return show(e)


def sum_terms(e, env=None, depth=0):
    """Decompose an integer expression into (const, [indicator formulas]) if it is a sum of a
    constant and 0/1 indicators (`!!x`, `x ? 2 : 1`, bool casts).  Returns None if it is not."""
    e = unwrap(e)
    if not isinstance(e, dict) or depth > 40:
        return None
    cv = const_value(e)
    if cv is not None and e.get("k") in ("Lit", "Call", "Ref", "Cast", "Bin", "Un"):
        if e.get("k") != "Ref" or e.get("d") == "enumconst":
            return (int(cv), [])
    k = e.get("k")
    if k == "Bin" and e.get("op") == "+":
        a = sum_terms(e["lhs"], env, depth + 1)
        b = sum_terms(e["rhs"], env, depth + 1)
        if a is None or b is None:
            return None
        return (a[0] + b[0], a[1] + b[1])
    if k == "Cond":
        a = const_value(e["a"])
        b = const_value(e["b"])
        if a is not None and b is not None and a - b == 1:
            return (int(b), [cond(e["c"], env)])
        if a is not None and b is not None and b - a == 1:
            return (int(a), [f_not(cond(e["c"], env))])
        return None
    if k == "Cast" and e.get("from") == "bool":
        return (0, [cond(e["e"], env)])
    if e.get("t") == "bool":
        return (0, [cond(e, env)])
    if k == "Call" and (callee_qn(e) or "").split("<")[0] == "std::count" and len(e.get("args", [])) == 3 and env is not None:
        # std::count(std::begin(flags), std::end(flags), true) over a local array of presence tests is their sum
        want = const_value(e["args"][2])

        def arr(x):
            x = unwrap_all_casts(x)
            if isinstance(x, dict) and x.get("k") == "Call" and (callee_qn(x) or "").split("<")[0] in ("std::begin", "std::end", "std::cbegin", "std::cend") and x.get("args"):
                a0 = unwrap_all_casts(unwrap(x["args"][0]))
                if isinstance(a0, dict) and a0.get("k") == "InitList":
                    return a0          # the array's initialiser was substituted for the array
                p_ = path(x["args"][0])
                d_ = env.definition(p_) if p_ is not None else None
                return unwrap(d_) if d_ is not None else None
            return None
        da, db = arr(e["args"][0]), arr(e["args"][1])
        if want in (1, True, 0, False) and isinstance(da, dict) and isinstance(db, dict) and show(da) == show(db) and \
                [show(x) for x in da.get("c", [])] == [show(x) for x in db.get("c", [])]:
            d = da
            if isinstance(d, dict) and d.get("k") == "InitList" and all(isinstance(x, dict) and x.get("t") == "bool" for x in d.get("c", [])):
                inds = [cond(x, env) for x in d["c"]]
                if want in (0, False):
                    inds = [f_not(i) for i in inds]
                return (0, inds)
    if k == "Ref" and env is not None:
        p = path(e)
        d = env.definition(p)
        if d is not None:
            return sum_terms(d, env, depth + 1)
    return None


def nz_formula(e, env=None):
    """Formula for `e != 0` of an integer expression."""
    e = unwrap(e)
    st = sum_terms(e, env)
    if st is not None:
        c, inds = st
        if c > 0:
            return ("T",)
        if not inds:
            return ("F",)
        return f_or(*inds)
    sp = size_call_path(e)
    if sp is not None:
        if env is not None:
            sp = env.resolve_ref_path(sp)
        return ("nonempty", sp)
    # (c ? x : 0) != 0   is   c && x != 0
    ue = unwrap_all_casts(e)
    if isinstance(ue, dict) and ue.get("k") == "Ref" and ue.get("d") == "local" and env is not None and path(ue) and env.defs.get(path(ue)[0]) is not None:
        de = unwrap_all_casts(env.defs[path(ue)[0]])
        if isinstance(de, dict) and de.get("k") == "Cond":
            ue = de
    if isinstance(ue, dict) and ue.get("k") == "Cond":
        for keep, zero, neg in ((ue.get("a"), ue.get("b"), False), (ue.get("b"), ue.get("a"), True)):
            if const_value(zero) == 0 and isinstance(keep, dict) and const_value(keep) is None:
                cc = cond(ue["c"], env)
                return f_and(f_not(cc) if neg else cc, nz_formula(keep, env))
    # bit test: x & Enum::b
    if isinstance(e, dict) and e.get("k") == "Bin" and e.get("op") == "&":
        for x, y in ((e["lhs"], e["rhs"]), (e["rhs"], e["lhs"])):
            er = unwrap_all_casts(y)
            if isinstance(er, dict) and er.get("k") == "Ref" and er.get("d") == "enumconst":
                ux = unwrap_all_casts(x)
                if isinstance(ux, dict) and ux.get("k") == "Ref" and ux.get("d") == "local" and env is not None and path(ux) and env.defs.get(path(ux)[0]) is not None:
                    dx = unwrap_all_casts(env.defs[path(ux)[0]])
                    if isinstance(dx, dict) and dx.get("k") == "Cond":
                        ux = dx
                if isinstance(ux, dict) and ux.get("k") == "Cond":
                    # (c ? word : 0) & bit   is   c && (word & bit)     (a mask that is switched off as a whole)
                    for keep, zero, neg in ((ux.get("a"), ux.get("b"), False), (ux.get("b"), ux.get("a"), True)):
                        if const_value(zero) == 0 and isinstance(keep, dict):
                            sub = nz_formula({"k": "Bin", "op": "&", "lhs": keep, "rhs": y, "t": e.get("t"), "l": e.get("l")}, env)
                            cc = cond(ux["c"], env)
                            return f_and(f_not(cc) if neg else cc, sub)
                xp = path(unwrap_all_casts(x))
                if xp is not None and env is not None:
                    xp = env.resolve_ref_path(xp)
                    # a local *copy* initialised from a member path is still that word's value
                xk = xp if xp is not None else show(x)
                return ("bit", xk, er.get("enum"), er.get("n"))
    return ("nz", int_key(e, env))


def cond(e, env=None):
    """Normalise a boolean condition expression into a formula."""
    e = unwrap(e)
    if not isinstance(e, dict):
        return ("call", "?")
    k = e.get("k")
    t = e.get("t")
    if k == "Lit":
        v = e.get("v")
        return ("T",) if v else ("F",)
    if k == "Un" and e.get("op") == "!":
        return f_not(cond(e["e"], env))
    if k == "Bin" and e.get("op") == "&&":
        return f_and(cond(e["lhs"], env), cond(e["rhs"], env))
    if k == "Bin" and e.get("op") == "||":
        return f_or(cond(e["lhs"], env), cond(e["rhs"], env))
    if k == "MCall":
        nm = callee_name(e)
        recv = e.get("recv")
        rt = unwrap(recv).get("t", "") if recv is not None else ""
        if is_optional_type(rt) and nm in OPTIONAL_PRESENT:
            p = path(recv)
            if p is not None:
                if env is not None:
                    p = env.resolve_ref_path(p)
                return ("present", p)
        if nm == "empty" and not e.get("args"):
            p = path(recv)
            if p is not None:
                if env is not None:
                    p = env.resolve_ref_path(p)
                return f_not(("nonempty", p))
    if k == "OpCall" and e.get("op") == "!" and e.get("args"):
        a0 = e["args"][0]
        if is_optional_type(unwrap(a0).get("t", "")):
            p = path(a0)
            if p is not None:
                if env is not None:
                    p = env.resolve_ref_path(p)
                return f_not(("present", p))
    if k == "Cast":
        fr = e.get("from", "")
        if e.get("t") == "bool" and fr != "bool":
            return nz_formula(e["e"], env)
        return cond(e["e"], env)
    if k == "Bin" and e.get("op") in ("<", ">", "<=", ">="):
        # max(a, b, ..) >= x  <=>  a >= x || b >= x ..   (and the three dual forms): the extremum of a list compared with a
        # bound is the disjunction / conjunction of the element-wise comparisons
        for side, other, flip in (("lhs", "rhs", False), ("rhs", "lhs", True)):
            m = unwrap_all_casts(e[side])
            if isinstance(m, dict) and m.get("k") == "Call" and (callee_qn(m) or "").split("<")[0] in ("std::max", "std::min"):
                elems = []
                for a in m.get("args", []):
                    ua = unwrap_all_casts(unwrap(a))
                    if isinstance(ua, dict) and ua.get("k") == "StdInitList":
                        ua = unwrap_all_casts(ua.get("e"))
                    if isinstance(ua, dict) and ua.get("k") == "InitList":
                        elems += [x for x in ua.get("c", []) if isinstance(x, dict)]
                    else:
                        elems.append(a)
                if len(elems) >= 2 and len(m.get("args", [])) <= 2:
                    op = e["op"]
                    if flip:
                        op = {"<": ">", ">": "<", "<=": ">=", ">=": "<="}[op]     # extremum OP other
                    is_max = (callee_qn(m) or "").split("<")[0] == "std::max"
                    parts = []
                    for el in elems:
                        n2 = {"k": "Bin", "op": op, "t": "bool", "l": e.get("l"), "lhs": el, "rhs": e[other]}
                        parts.append(cond(n2, env))
                    # max >=/> x : some element; max </<= x : every element; min the other way round
                    some = (is_max and op in (">", ">=")) or ((not is_max) and op in ("<", "<="))
                    return f_or(*parts) if some else f_and(*parts)
    if k == "Bin" and e.get("op") in ("==", "!=", "<", ">", "<=", ">="):
        op = e["op"]
        l, r = e["lhs"], e["rhs"]
        lv, rv = const_value(l), const_value(r)
        if lv is not None and rv is not None and not isinstance(lv, str) and not isinstance(rv, str):
            # both sides are constants (a policy parameter of a helper after its expansion): the test is decided
            res = {"==": lv == rv, "!=": lv != rv, "<": lv < rv, ">": lv > rv, "<=": lv <= rv, ">=": lv >= rv}[op]
            return ("T",) if res else ("F",)
        # x != 0, x > 0 (unsigned), x == 0, 0 < x ...
        lt = unwrap(l).get("t", "") if isinstance(unwrap(l), dict) else ""
        rt = unwrap(r).get("t", "") if isinstance(unwrap(r), dict) else ""
        # (a member read inside a const method is `const unsigned long`)
        lt, rt = lt.replace("const ", "").replace("volatile ", ""), rt.replace("const ", "").replace("volatile ", "")
        if (rv == 0 and lv is None and op in ("==", "!=")) or (lv == 0 and rv is None and op in ("==", "!=")):
            # (a - b) == 0  <=>  a == b  (pointer difference or modular integer difference, not narrowed by a cast)
            d = l if rv == 0 else r
            wide = True
            while isinstance(d, dict) and d.get("k") == "Cast":
                wide = wide and (d.get("t", "").replace("const ", "") in ("unsigned long", "long", "std::size_t", "size_t", "std::ptrdiff_t", "ptrdiff_t",
                                                                          "unsigned long long", "long long"))
                d = d.get("e")
            if wide and isinstance(d, dict) and d.get("k") == "Bin" and d.get("op") == "-":
                return cond({"k": "Bin", "op": op, "t": "bool", "l": e.get("l"), "lhs": d["lhs"], "rhs": d["rhs"]}, env)
        if rv == 0 and lv is None:
            uns = never_negative(l)
            if op == "!=" or (op == ">" and uns):
                return nz_formula(l, env)
            if op == "==" or (op == "<=" and uns):
                return f_not(nz_formula(l, env))
            if op == ">=" and uns:
                return ("T",)
            if op == "<" and uns:
                return ("F",)
        if lv == 0 and rv is None:
            uns = never_negative(r)
            if op == "!=" or (op == "<" and uns):
                return nz_formula(r, env)
            if op == "==" or (op == ">=" and uns):
                return f_not(nz_formula(r, env))
        lk, rk = int_key(l, env), int_key(r, env)
        # canonical orientation: smaller key on the left
        if (lk, op) > (rk, op) and op in ("==", "!="):
            lk, rk = rk, lk
        elif op in (">", ">="):
            lk, rk = rk, lk
            op = {">": "<", ">=": "<="}[op]
        return ("cmp", op, lk, rk)
    if k == "OpCall" and e.get("op") in ("==", "!=", "<", ">", "<=", ">=") and len(e.get("args", [])) == 2:
        lk, rk = int_key(e["args"][0], env), int_key(e["args"][1], env)
        op = e["op"]
        if op in (">", ">="):
            lk, rk = rk, lk
            op = {">": "<", ">=": "<="}[op]
        return ("cmp", op, lk, rk)
    if k == "Ref":
        p = path(e)
        if env is not None and p is not None:
            d = env.definition(p)
            if d is not None and t == "bool":
                return cond(d, env)
        if t == "bool" and p is not None:
            return ("nz", path_str(p))
    if k == "Cond":
        c = cond(e["c"], env)
        a = cond(e["a"], env)
        b = cond(e["b"], env)
        return f_or(f_and(c, a), f_and(f_not(c), b))
    if t and t != "bool" and not is_optional_type(t):
        return nz_formula(e, env)
    p = path(e)
    if p is not None:
        return ("nz", path_str(p))
    return ("call", show(e))


_INT_BITS = {"bool": (1, False), "unsigned char": (8, False), "signed char": (8, True), "char": (8, True),
             "unsigned short": (16, False), "short": (16, True), "unsigned int": (32, False), "int": (32, True),
             "unsigned long": (64, False), "long": (64, True), "unsigned long long": (64, False), "long long": (64, True)}


def never_negative(e, depth=0):
    """The value of e as the comparison sees it cannot be negative: an unsigned / bool operand, possibly behind conversions
    that keep its value (promotion of a narrower unsigned type to a wider signed one).  A conversion of an unsigned value to
    a signed type of the same or a smaller width (`int64_t wide = u64;`) can produce a negative value."""
    if not isinstance(e, dict) or depth > 12:
        return False
    t = (e.get("t") or "").replace("const ", "").replace("volatile ", "")
    k = e.get("k")
    if k in ("DefaultArg", "DefaultInit"):
        return never_negative(e.get("e"), depth + 1)
    if k == "Cast":
        if t in _INT_BITS and not _INT_BITS[t][1]:
            return True                      # converted to an unsigned type
        inner = e.get("e")
        it = ((inner or {}).get("t") or "").replace("const ", "").replace("volatile ", "") if isinstance(inner, dict) else ""
        if t == it or e.get("ck") in ("LValueToRValue", "NoOp"):
            return never_negative(inner, depth + 1)
        if t in _INT_BITS and it in _INT_BITS:
            if _INT_BITS[t][0] > _INT_BITS[it][0] or (_INT_BITS[t][0] == _INT_BITS[it][0] and _INT_BITS[t][1] == _INT_BITS[it][1]):
                return never_negative(inner, depth + 1)      # widening (or same type): the value is kept
            return False
        return False
    return (t.startswith("unsigned") or t == "bool") and t.split("<")[0] in _INT_BITS


def show_f(f):
    h = f[0]
    if h == "T":
        return "true"
    if h == "F":
        return "false"
    if h == "present":
        return "present(%s)" % path_str(f[1])
    if h == "nonempty":
        return "nonempty(%s)" % path_str(f[1])
    if h == "nz":
        return "%s!=0" % (f[1],)
    if h == "bit":
        x = f[1]
        return "bit(%s,%s)" % (path_str(x) if isinstance(x, tuple) else x, f[3])
    if h == "cmp":
        return "%s %s %s" % (f[2], f[1], f[3])
    if h == "call":
        return f[1]
    if h == "not":
        return "!(%s)" % show_f(f[1])
    if h in ("and", "or"):
        sep = " && " if h == "and" else " || "
        return "(" + sep.join(show_f(x) for x in f[1:]) + ")"
    return repr(f)


# ------------------------------------------------------------------ structured control flow

def always_leaves(n):
    """True if executing statement n never falls through to the next statement
    (return / throw / break / continue on every path)."""
    if n is None:
        return False
    k = n.get("k")
    if k in ("Return", "Break", "Continue", "Throw"):
        return True
    if k == "Block":
        for s in n.get("s", []):
            if always_leaves(s):
                return True
        return False
    if k == "If":
        return n.get("else") is not None and always_leaves(n["then"]) and always_leaves(n["else"])
    if k == "Try":
        return always_leaves(n["body"]) and all(always_leaves(h["body"]) for h in n.get("handlers", []))
    return False


def leaves_function(n):
    """True if executing n always leaves the *function* (return/throw)."""
    if n is None:
        return False
    k = n.get("k")
    if k in ("Return", "Throw"):
        return True
    if k == "Block":
        return any(leaves_function(s) for s in n.get("s", []))
    if k == "If":
        return n.get("else") is not None and leaves_function(n["then"]) and leaves_function(n["else"])
    return False


LOOP_CONDS = [False]


def written_locals(n):
    """Keys of the locals written in place (assignment, ++/--, compound assignment) somewhere inside n."""
    out = set()
    for x in walk(n):
        k = x.get("k")
        p = None
        if k == "Bin" and x.get("op", "").endswith("=") and x["op"] not in ("==", "!=", "<=", ">="):
            p = path(x.get("lhs"))
        elif k == "Un" and x.get("op") in ("pre++", "pre--", "post++", "post--"):
            p = path(x.get("e"))
        if p and len(p) == 1 and (p[0].startswith("l:") or p[0].startswith("p:")):
            out.add(p[0])
    return out


def guarded_statements_lc(body, env=None, base=("T",)):
    """Like guarded_statements, but the condition of an enclosing while/for loop is added to the guard of
    the statements in its body (it holds at body entry; callers accept that a body may invalidate it)."""
    LOOP_CONDS[0] = True
    try:
        yield from [x for x in _gs(body, env, base, ()) if x[1] != ("F",)]
    finally:
        LOOP_CONDS[0] = False


def fallthrough(s, env, depth=0):
    """Formula under which control continues with the statement after s (T when nothing is known).
    if (c) <leaves>                      -> !c
    if (c) <leaves> else if (d) <leaves> -> !c && !d
    if (c) A else <leaves>               -> c"""
    if s is None or depth > 12:
        return ("T",)
    k = s.get("k")
    if k in ("Return", "Throw", "Break", "Continue"):
        return ("F",)
    if k == "Block":
        f = ("T",)
        for x in s.get("s", []):
            f = f_and(f, fallthrough(x, env, depth + 1))
            if f == ("F",):
                return f
        # only early exits constrain what follows; conditions established inside a nested block that completes
        # normally say nothing once the block is left, unless the block *is* the chain of early exits
        return f
    if k == "If":
        c = cond(s["cond"], env)
        ft = fallthrough(s.get("then"), env, depth + 1)
        fe = fallthrough(s.get("else"), env, depth + 1) if s.get("else") is not None else ("T",)
        if ft == ("F",) and fe == ("F",):
            return ("F",)
        if ft == ("F",):
            return f_and(f_not(c), fe)
        if fe == ("F",):
            return f_and(c, ft) if ft != ("T",) else c
        return ("T",)
    return ("T",)


def guarded_statements(body, env=None, base=("T",)):
    """Yield (stmt_or_expr_statement, guard formula, loop stack) for every *leaf* statement in
    structured order.  Guard = conjunction of enclosing if-conditions (with polarity) and the
    negations of earlier sibling `if (c) <always leaves>` statements.  Loops contribute their
    node to the loop stack (conditions of loops are not added as guards).  Statements whose guard is contradictory
    (a test repeated after it already made the function leave) are unreachable and not reported."""
    for x in _gs(body, env, base, ()):
        if x[1] != ("F",):
            yield x


def _gs(n, env, g, loops):
    if n is None:
        return
    k = n.get("k")
    if k == "Block":
        cur = g
        for s in n.get("s", []):
            yield from _gs(s, env, cur, loops)
            cur = f_and(cur, fallthrough(s, env))
        return
    if k == "If":
        c = cond(n["cond"], env)
        yield ({"k": "IfCond", "cond": n["cond"], "l": n.get("l"), "node": n}, g, loops)
        yield from _gs(n.get("then"), env, f_and(g, c), loops)
        if n.get("else") is not None:
            yield from _gs(n["else"], env, f_and(g, f_not(c)), loops)
        return
    if k in ("While", "Do", "For", "RangeFor"):
        yield ({"k": "LoopHead", "node": n, "l": n.get("l")}, g, loops)
        if k == "For" and n.get("init") is not None:
            yield from _gs(n["init"], env, g, loops)
        gb = g
        if LOOP_CONDS[0] and k in ("While", "For") and n.get("cond") is not None:
            lc = cond(n["cond"], env)
            body = n.get("body")
            if isinstance(body, dict) and body.get("k") == "Block":
                # the loop condition holds at body entry; an atom is dropped after the first top-level body statement
                # that writes a local it mentions
                atoms = conjuncts(lc)
                cur = g
                for s_ in body.get("s", []):
                    yield from _gs(s_, env, f_and(cur, *atoms), loops + (n,))
                    cur = f_and(cur, fallthrough(s_, env))
                    w = written_locals(s_)
                    if w:
                        atoms = [a for a in atoms if not any(x in repr(a) for x in w)]
                if k == "For" and n.get("inc") is not None:
                    yield (n["inc"], f_and(g, *atoms), loops + (n,))
                return
            gb = f_and(g, lc)
        yield from _gs(n.get("body"), env, gb, loops + (n,))
        if LOOP_CONDS[0] and k == "For" and n.get("inc") is not None:
            yield (n["inc"], gb, loops + (n,))
        return
    if k == "Switch":
        yield ({"k": "SwitchHead", "node": n, "l": n.get("l")}, g, loops)
        # statements of a case group carry `operand == label` when the group cannot be entered by fall-through
        key = int_key(n.get("cond"), env) if n.get("cond") is not None else None
        body = stmts(n.get("body"))
        cur = g
        prev_leaves = True
        for s_ in body:
            x = s_
            labels = []
            isdef = False
            while isinstance(x, dict) and x.get("k") in ("Case", "Default"):
                if x["k"] == "Case":
                    labels.append(const_value(x.get("val")))
                else:
                    isdef = True
                x = x.get("sub")
            if labels or isdef:
                if len(labels) == 1 and not isdef and labels[0] is not None and prev_leaves and key is not None:
                    cur = f_and(g, ("cmp", "==", key, str(labels[0])))
                elif isdef and not labels and prev_leaves and key is not None:
                    others = []
                    for y in body:
                        z = y
                        while isinstance(z, dict) and z.get("k") in ("Case", "Default"):
                            if z["k"] == "Case" and const_value(z.get("val")) is not None:
                                others.append(const_value(z.get("val")))
                            z = z.get("sub")
                    cur = f_and(g, *[("cmp", "!=", key, str(v)) for v in others])
                else:
                    cur = g
                yield from _gs(x, env, cur, loops + (n,))
                prev_leaves = always_leaves(x) if x is not None else False
            else:
                yield from _gs(s_, env, cur, loops + (n,))
                prev_leaves = always_leaves(s_)
        return
    if k in ("Case", "Default"):
        yield from _gs(n.get("sub"), env, g, loops)
        return
    if k == "Try":
        yield from _gs(n.get("body"), env, g, loops)
        for h in n.get("handlers", []):
            yield from _gs(h.get("body"), env, g, loops + ({"k": "Handler", "node": h},))
        return
    yield (n, g, loops)


def calls_in(n, include_lambdas=True):
    """All call-like nodes inside n."""
    for x in walk(n):
        if x.get("k") in ("Call", "MCall", "OpCall", "Construct"):
            yield x


def implies(g, f):
    """Cheap syntactic implication: every conjunct of f appears among the conjuncts of g."""
    gs = set(conjuncts(g))
    if f[0] == "T":
        return True
    for c in conjuncts(f):
        if c in gs:
            continue
        # or-formula implied by any of its disjuncts
        if c[0] == "or" and any(d in gs for d in c[1:]):
            continue
        return False
    return True


def subst_formula(f, pmap):
    """Rewrite a formula of a callee into the caller's vocabulary. pmap: 'p:name' -> caller path tuple (or None).
    Path tuples get their parameter prefix replaced, string keys their textual occurrences."""
    def sub_path(p):
        if p and p[0] in pmap and pmap[p[0]] is not None:
            return tuple(pmap[p[0]]) + tuple(p[1:])
        return p

    def sub_str(s_):
        out = s_
        for k, v in sorted(pmap.items(), key=lambda kv: -len(kv[0])):
            if v is not None:
                out = out.replace(k, path_str(tuple(v)))
        return out
    h = f[0]
    if h in ("and", "or"):
        parts = [subst_formula(x, pmap) for x in f[1:]]
        return f_and(*parts) if h == "and" else f_or(*parts)
    if h == "not":
        return f_not(subst_formula(f[1], pmap))
    if h in ("present", "nonempty"):
        return (h, sub_path(f[1]))
    if h == "nz":
        return ("nz", sub_str(f[1]) if isinstance(f[1], str) else f[1])
    if h == "bit":
        return ("bit", sub_path(f[1]) if isinstance(f[1], tuple) else sub_str(f[1]), f[2], f[3])
    if h == "cmp":
        return ("cmp", f[1], sub_str(f[2]), sub_str(f[3]))
    if h == "call":
        return ("call", sub_str(f[1]))
    return f


ITEM_CONTAINERS = ("m_query_responses", "m_address_event_counts", "m_malformed_messages")


def is_item_count_test(atom):
    """A guard atom that tests a block's total item count: through get_item_count() or, after the getter was
    inlined, through an expression over the sizes of all three item containers."""
    r = repr(atom)
    return "get_item_count" in r or all(m in r for m in ITEM_CONTAINERS)


def without_item_count_tests(atoms):
    """The atoms of a conjunction that are *not* tests of the block's item count.  Besides single atoms over all three item
    containers (is_item_count_test), a group of per-container (non-)emptiness tests that covers every item container is
    such a test written out: `qr.empty() && aec.empty() && mm.empty()`."""
    rest = [a for a in atoms if not is_item_count_test(a)]
    per = {}
    for a in rest:
        r = repr(a)
        hit = [m for m in ITEM_CONTAINERS if m in r]
        if len(hit) == 1 and ("nonempty" in r or "size(" in r):
            per.setdefault(hit[0], []).append(a)
    if len(per) == len(ITEM_CONTAINERS):
        drop = set(id(a) for v in per.values() for a in v)
        rest = [a for a in rest if id(a) not in drop]
    return rest


def eval_formula(f, val):
    """Three-valued evaluation of a guard formula under a valuation {key: int}: True / False / None (unknown atom)."""
    h = f[0]
    if h == "T":
        return True
    if h == "F":
        return False
    if h == "not":
        r = eval_formula(f[1], val)
        return None if r is None else (not r)
    if h in ("and", "or"):
        rs = [eval_formula(x, val) for x in f[1:]]
        if h == "and":
            if any(r is False for r in rs):
                return False
            return None if any(r is None for r in rs) else True
        if any(r is True for r in rs):
            return True
        return None if any(r is None for r in rs) else False
    if h == "nz":
        k = f[1] if isinstance(f[1], str) else path_str(f[1])
        return (val[k] != 0) if k in val else None
    if h == "cmp":
        def v(s):
            if s in val:
                return val[s]
            try:
                return int(s)
            except (TypeError, ValueError):
                return None
        a, b = v(f[2]), v(f[3])
        if a is None or b is None:
            return None
        return {"==": a == b, "!=": a != b, "<": a < b, "<=": a <= b, ">": a > b, ">=": a >= b}[f[1]]
    return None


def walk_formula(f):
    """All atoms of a formula."""
    if f[0] in ("and", "or"):
        for x in f[1:]:
            yield from walk_formula(x)
    elif f[0] == "not":
        yield from walk_formula(f[1])
    else:
        yield f
