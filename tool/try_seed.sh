#!/bin/sh
# Applies a seeded change to /repo, runs the quick checks (all, or the ones given), and undoes it straight afterwards.
# usage: tool/try_seed.sh <patch.diff> [Cxx ...]
set -u
patch="$1"; shift
cd /verif
if ! git -C /repo diff --quiet; then echo "/repo working tree is not clean"; exit 3; fi
git -C /repo apply "$patch" || { echo "patch does not apply"; exit 3; }
trap 'git -C /repo checkout -- . ' EXIT
props="$*"
[ -z "$props" ] && props="C01 C02 C03 C04 C05 C06 C07 C08 C09 C10 C11 C12 C13 C14 C15 C16 C17 C18 C19 C20"
for p in $props; do
  out=$(VERIF_SEEDRUN=1 ./check $p 2>&1 | grep -v conda)
  rc=$?
  echo "$out" | grep -E "^VIOLATION|^ANALYSIS-BROKEN|^  src/|\] OK" | cut -c1-330 | sed "s/^/[$p] /" | head -8
done
