"""C14 Compression is transparent: decompressing any output gives the plain output (necessary conditions)."""
from .. import ir, writers, consumption
from ..writers import BASE, WSTR, WINT, PLAIN, GZ, XZ, short, ordered_calls, names
from ..ir import path, path_str, unwrap, unwrap_all_casts, callee_name, callee_qn, show, show_f, Env, conjuncts, const_value, cond
from ..facts import AnalysisBroken

META = {
    "level": "other",
    "rule_text": "R14.1 no stack allocation proportional to the chunk (no VLA/alloca in the compressed writers whose bound depends on a "
                 "parameter); R14.2 write loops until avail_in == 0, close loops with FINISH until STREAM_END and then releases the "
                 "compressor, and every produced chunk is forwarded with length capacity - avail_out for the capacity that was "
                 "assigned to avail_out; R14.3 only OK/STREAM_END are accepted from the compressor, anything else throws; R14.4 "
                 "format constants (gzip wrapper windowBits 15+16, xz easy encoder, suffixes .gz/.xz); R14.5 one complete stream per "
                 "output (close -> inner rotate -> open). R14.2 (release): the compressor may be released in close() after the finishing loop or kept for the next output, never before the stream is finished. R14.4 no-partial-reset: deflateResetKeep / deflateCopy / deflateSetDictionary / deflatePrime are not used by the writers (positive control). R14.6 = the name obligations of R15.1/R15.2 (the suffix is part of the name written and published). R14.7: a data member that is always assigned the same function of other members (cdnsverif/derived.py) is recomputed by every member function that changes those members; the lazy form under a validity flag / stored key is refreshed before every read and invalidated after every change. R14.2 input window = the stores that reach the loop. R14.2 also: no return in front of the consuming loop for a non-empty chunk unless avail_in == 0. R14.3 accepts a step that reports a refused code through a bool member of its result struct which every caller tests straight after the call and throws on.",
    "explanation": "Structural necessary conditions over writer.cpp; that decompression reproduces the input is zlib/liblzma "
                   "semantics and is not decided.",
    "trusted_base": ["clang 14 AST", "zlib deflate / liblzma lzma_code contracts (avail_in/avail_out bookkeeping)"],
    "assumptions": [],
}

PARTIAL_RESETS = ("deflateResetKeep", "deflateCopy", "deflateSetDictionary", "deflatePrime")

SPEC = {
    GZ: {"stream": "m_gzip", "step": "write_gzip", "code": "deflate", "end": "deflateEnd", "init": "deflateInit2_", "finish": "Z_FINISH",
         "ok": {0: "Z_OK", 1: "Z_STREAM_END"}, "end_code": 1, "suffix": ".gz", "finish_val": 4, "run_val": 0},
    XZ: {"stream": "m_lzma", "step": "write_lzma", "code": "lzma_code", "end": "lzma_end", "init": "lzma_easy_encoder", "finish": "LZMA_FINISH",
         "ok": {0: "LZMA_OK", 1: "LZMA_STREAM_END"}, "end_code": 1, "suffix": ".xz", "finish_val": 3, "run_val": 0},
}


def depends_on_param(e, fn, env, depth=0):
    """Does expression e depend on a parameter of fn (following single-definition locals)?"""
    if e is None or depth > 6:
        return False
    for x in ir.walk(e):
        if x.get("k") == "Ref" and x.get("d") == "param":
            return True
        if x.get("k") == "Ref" and x.get("d") == "local":
            p = path(x)
            d = env.defs.get(p[0]) if p else None
            if d is not None and depends_on_param(d, fn, env, depth + 1):
                return True
    return False


def check_no_partial_reset(run, rule):
    """A compressor kept for the next output has to be brought back to its initial state completely: the partial resets of the
    zlib API keep the window of the previous output, which the reader of the new output never sees."""
    facts = run.facts
    ctl = facts.control("r14_4_partial_reset", rule)
    if not any(callee_name(c_) in PARTIAL_RESETS for c_ in ir.calls_in(ctl["body"])):
        raise AnalysisBroken(rule, "the partial-reset detector is silent on its control (tu/rule_controls.cpp)")
    for cls, sp in SPEC.items():
        tag = short(cls)
        anchor = facts.fn(cls + "::open", rule=rule)
        partial = [(f_, c_) for f_ in facts.functions.values() if f_.get("cls") == cls and f_.get("body") is not None
                   for c_ in ir.calls_in(f_["body"]) if callee_name(c_) in PARTIAL_RESETS]
        run.ob(rule, "%s:no-partial-reset" % tag, not partial, partial[0][0] if partial else anchor, partial[0][1].get("l", 0) if partial else anchor["line"],
               "the stream is (re)initialised only through %s / a full reset" % sp["init"] if not partial else
               "%s() keeps compression state of the previous output (window, dictionary): the first bytes of the next output can refer to data that "
               "is not in it" % callee_name(partial[0][1]), nontrivial=False)


def failure_reported_by_result(facts, cls, sp, step, forward):
    """(verdict, text) for a compressor step without a throw of its own"""
    order = {id(n): i for i, n in enumerate(ir.walk(step["body"]))}
    rets = [r for r in ir.walk(step["body"]) if r.get("k") == "Return" and r.get("e") is not None]

    def fields_of(r):
        il = unwrap_all_casts(r["e"])
        while isinstance(il, dict) and il.get("k") == "Construct" and len(il.get("args", [])) == 1:
            il = unwrap_all_casts(il["args"][0])
        return il.get("c") if isinstance(il, dict) and il.get("k") == "InitList" else None
    rec = facts.records.get((step.get("ret") or "").replace("const ", "")) or {}
    names = [f_["n"] for f_ in rec.get("fields", [])]
    err = [r for r in rets if order[id(r)] < order[id(forward)]]
    good = [r for r in rets if order[id(r)] > order[id(forward)]]
    if not names or not err or not good or any(fields_of(r) is None or len(fields_of(r)) != len(names) for r in rets):
        return None, "the step neither throws on a refused return code nor returns a result struct built in place"
    sig = None
    for i, nm in enumerate(names):
        ev_ = set(const_value(fields_of(r)[i]) for r in err)
        gv_ = set(const_value(fields_of(r)[i]) for r in good)
        if len(ev_) == 1 and len(gv_) == 1 and None not in ev_ and None not in gv_ and ev_ != gv_ and rec["fields"][i].get("t") == "bool":
            sig = (i, nm, list(ev_)[0])
            break
    if sig is None:
        return False, "a refused return code neither throws nor is told apart in the result: no member has one constant on the failure returns and another on the rest"
    i, nm, errval = sig
    sites = 0
    for f in facts.functions.values():
        if f.get("cls") != cls or f.get("body") is None:
            continue
        calls = [c for c in ir.calls_in(f["body"]) if callee_qn(c) == "%s::%s" % (cls, sp["step"])]
        if not calls:
            continue
        tested = set()

        def is_test(c_, of_call=None, of_local=None):
            """condition true exactly when the member carries the failure value"""
            u = unwrap_all_casts(c_)
            neg = False
            while isinstance(u, dict) and u.get("k") == "Un" and u.get("op") == "!":
                neg = not neg
                u = unwrap_all_casts(u.get("e"))
            if not (isinstance(u, dict) and u.get("k") == "Member" and u.get("n") == nm):
                return False
            b = unwrap_all_casts(u.get("base"))
            while isinstance(b, dict) and b.get("k") == "Construct" and b.get("copymove") and len(b.get("args", [])) == 1:
                b = unwrap_all_casts(b["args"][0])
            if of_call is not None and b is not of_call:
                return False
            if of_local is not None and path(b) != of_local:
                return False
            return neg == (not errval)         # `!r.ok` for failure value false, `r.failed` for failure value true

        def throws_first(br):
            sts = [x for x in ir.stmts(br) if x.get("k") != "Null"]
            return bool(sts) and unwrap(sts[0]).get("k") == "Throw"

        def scan(sts):
            for j, s_ in enumerate(sts):
                u = unwrap(s_)
                if not isinstance(u, dict):
                    continue
                k = u.get("k")
                if k == "If":
                    for c in calls:
                        if any(x is c for x in ir.walk(u.get("cond"))) and is_test(u["cond"], of_call=c) and throws_first(u.get("then")):
                            tested.add(id(c))
                target = None
                if k == "Bin" and u.get("op") == "=":
                    target, rhs = path(u.get("lhs")), u.get("rhs")
                elif k == "OpCall" and u.get("op") == "=" and len(u.get("args", [])) == 2:
                    target, rhs = path(unwrap_all_casts(u["args"][0])), u["args"][1]
                elif k == "Decl" and len(u.get("vars", [])) == 1 and u["vars"][0].get("init") is not None:
                    v = u["vars"][0]
                    target, rhs = ("l:%s#%s" % (v.get("n"), v.get("id")),), v["init"]
                if target:
                    b = unwrap_all_casts(rhs)
                    while isinstance(b, dict) and b.get("k") == "Construct" and b.get("copymove") and len(b.get("args", [])) == 1:
                        b = unwrap_all_casts(b["args"][0])
                    for c in calls:
                        if b is c and j + 1 < len(sts):
                            nx = unwrap(sts[j + 1])
                            if isinstance(nx, dict) and nx.get("k") == "If" and is_test(nx["cond"], of_local=target) and throws_first(nx.get("then")):
                                tested.add(id(c))
                for sub in ir.children(u):
                    if isinstance(sub, dict) and sub.get("k") == "Block":
                        scan(ir.stmts(sub))
                    elif isinstance(sub, dict) and sub.get("k") in ("If", "While", "Do", "For", "Try", "Switch", "Handler", "Case", "Default"):
                        scan([sub])
                for h in u.get("handlers", []) or []:
                    scan(ir.stmts(h.get("body")))
        scan(ir.stmts(f["body"]))
        for c in calls:
            sites += 1
            if id(c) not in tested:
                return False, "%s at line %s does not test `%s` of the step's result and throw: a refused return code goes unnoticed" % (
                    f["qn"].split("::")[-1], c.get("l"), nm)
    if sites == 0:
        return None, "no caller of the step found"
    return True, ""


def check(run):
    check_no_partial_reset(run, "R14.4")
    # the compression suffix is part of the name under which the output is written and published (R15.1/R15.2 imported)
    from .. import derived as _derived
    _derived.report(run, "R14.7", ["CDNS::Writer<std::basic_string<char>>", "CDNS::Writer<int>", "CDNS::CdnsEncoder", "CDNS::CborOutputWriter", "CDNS::GzipCborOutputWriter", "CDNS::XzCborOutputWriter", "CDNS::CdnsExporter"])
    from . import C15 as _C15, C06 as _C06
    _C15.check_names(_C06._Renamed(run, {"R15.1": "R14.6", "R15.2": "R14.6"}), "R15.1", "R15.2", only_names=True)
    facts = run.facts
    for cls, sp in SPEC.items():
        tag = short(cls)
        step = facts.fn("%s::%s" % (cls, sp["step"]), rule="R14.1")
        wr = facts.fn(cls + "::write", rule="R14.2")
        cl = facts.fn(cls + "::close", rule="R14.2")
        op = facts.fn(cls + "::open", rule="R14.4")
        # ---------------- R14.1 stack allocation
        for f in (step, wr, cl, op):
            env = Env(f["body"])
            for d in ir.walk(f["body"]):
                if d.get("k") == "Decl":
                    for v in d.get("vars", []):
                        if "vla" in v:
                            dep = depends_on_param(v["vla"], f, env)
                            run.ob("R14.1", "%s::%s:vla(%s)" % (tag, f["qn"].split("::")[-1], v["n"]), not dep, f, v.get("l", 0),
                                   "stack array with a bound independent of the chunk size" if not dep else
                                   "variable-length array %s[%s] on the stack is sized by the chunk handed to write(): a write of tens of MiB "
                                   "overflows the stack" % (v["n"], show(v["vla"])))
            for c in ir.calls_in(f["body"]):
                if callee_name(c) in ("alloca", "__builtin_alloca"):
                    run.ob("R14.1", "%s::%s:alloca" % (tag, f["qn"].split("::")[-1]), False, f, c.get("l", 0), "alloca in the compression path")
        bufs = [v for d in ir.walk(step["body"]) if d.get("k") == "Decl" for v in d.get("vars", []) if "[" in v.get("t", "") or "vla" in v]
        run.ob("R14.1", "%s::%s:scratch-buffer" % (tag, sp["step"]), len(bufs) == 1, step, step["line"],
               "one scratch buffer (%s)" % (bufs[0]["t"] if bufs else "?"), nontrivial=False)

        # ---------------- R14.2 loops and forwarding
        env = Env(wr["body"])
        loops = [n for n in ir.walk(wr["body"]) if n.get("k") in ("While", "Do", "For")]
        ok = False
        why = "write() must loop `while (%s.avail_in > 0)` around %s" % (sp["stream"], sp["step"])
        if len(loops) == 1 and loops[0].get("k") == "While":
            c = cond(loops[0]["cond"], env)
            calls = [x for x in ir.calls_in(loops[0]["body"]) if callee_qn(x) == "%s::%s" % (cls, sp["step"])]
            ok = c == ("nz", "this.%s.avail_in" % sp["stream"]) and len(calls) == 1
            if ok and const_value(calls[0]["args"][-1]) != sp["run_val"]:
                ok, why = False, "write() must run the compressor without finishing it (action %s)" % show(calls[0]["args"][-1])
            elif not ok:
                why = "write() loop condition is %s with %d compressor step(s); input is dropped unless it loops until avail_in == 0" % (show_f(c), len(calls))
        if ok:
            # ... on every path: a return in front of the loop leaves input behind unless the chunk is empty (a "small chunk"
            # fast path that runs the compressor once does not know how much of the chunk that pass took)
            order_ = {id(x): i for i, x in enumerate(ir.walk(wr["body"]))}
            size_key = "p:%s" % wr["params"][1]["n"]
            for st_, g_, lps_ in ir.guarded_statements(wr["body"], env):
                if st_.get("k") != "Return" or order_.get(id(st_), 0) > order_[id(loops[0])]:
                    continue
                if any(a_ == ("not", ("nz", "this.%s.avail_in" % sp["stream"])) or a_ == ("cmp", "==", "this.%s.avail_in" % sp["stream"], "0") or
                       a_ == ("cmp", "==", "0", "this.%s.avail_in" % sp["stream"]) for a_ in conjuncts(g_)):
                    continue            # leaves only when nothing is left to consume: the loop's own exit condition
                taken = [ir.eval_formula(g_, {size_key: v_}) for v_ in (1, 2, 100, 2048, 8128, 16384, 65536, 1 << 24)]
                if any(t_ is True for t_ in taken):
                    ok = False
                    why = "write() returns in front of the consuming loop for a non-empty chunk (when %s): whatever the compressor did not take in " \
                          "that pass is dropped" % show_f(g_)
                    break
                if any(t_ is None for t_ in taken):
                    ok = None
                    why = "write() returns in front of the consuming loop under %s, which is not a condition on the chunk size alone" % show_f(g_)
        run.ob("R14.2", "%s::write:loop-until-input-consumed" % tag, ok, wr, wr["line"],
               "loops until the compressor has consumed the whole chunk" if ok else why)
        # input pointers set from the arguments
        # (the stores that reach the loop: what happens to the pointers after the chunk is consumed is not the window)
        order_ = {id(x): i for i, x in enumerate(ir.walk(wr["body"]))}
        loop_at = order_[id(loops[0])] if loops else len(order_)
        asg = {lp: rhs for lp, rhs, node in consumption.assignment_targets(ir.stmts(wr["body"])) if lp and order_.get(id(node), 0) < loop_at}
        okin = path(unwrap_all_casts(asg.get(("this", sp["stream"], "next_in")))) == ("p:%s" % wr["params"][0]["n"],) and \
            path(unwrap_all_casts(asg.get(("this", sp["stream"], "avail_in")))) == ("p:%s" % wr["params"][1]["n"],)
        run.ob("R14.2", "%s::write:input-window" % tag, okin, wr, wr["line"], "next_in/avail_in are the caller's chunk" if okin else "next_in/avail_in are not set from (p, size)")
        # close: loop with FINISH until STREAM_END, then end
        env = Env(cl["body"])
        loops = [n for n in ir.walk(cl["body"]) if n.get("k") in ("While", "Do", "For")]
        ok = False
        why = "close() must call %s(..., %s) repeatedly until it returns the stream-end code, then %s" % (sp["step"], sp["finish"], sp["end"])
        if len(loops) == 1:
            lp = loops[0]
            c = unwrap(lp["cond"])
            steps = [x for x in ir.calls_in(lp) if callee_qn(x) == "%s::%s" % (cls, sp["step"])]
            cmp_ok = isinstance(c, dict) and c.get("k") == "Bin" and c.get("op") == "!=" and \
                (const_value(c["rhs"]) == sp["end_code"] or const_value(c["lhs"]) == sp["end_code"])
            if not cmp_ok:
                # the step reports through a result struct: `while (!step(.., FINISH).finished);` where every return of the step
                # sets that member to `<library result> == <stream-end code>`
                cu = unwrap_all_casts(c)
                if isinstance(cu, dict) and cu.get("k") == "Un" and cu.get("op") == "!":
                    m_ = unwrap_all_casts(cu.get("e"))
                    b_ = unwrap_all_casts(m_.get("base")) if isinstance(m_, dict) and m_.get("k") == "Member" and m_.get("field") else None
                    while isinstance(b_, dict) and b_.get("k") == "Construct" and b_.get("copymove") and len(b_.get("args", [])) == 1:
                        b_ = unwrap_all_casts(b_["args"][0])
                    if isinstance(b_, dict) and b_.get("k") == "Ref" and b_.get("d") == "local":
                        # `do { r = step(.., FINISH); } while (!r.finished);` - the local the loop body assigns the step's result to
                        asg_ = [rhs for lp, rhs, n_ in consumption.assignment_targets(ir.stmts(lp["body"])) if lp == path(b_)] if False else \
                            [rhs for lp_, rhs, n_ in consumption.assignment_targets(ir.stmts(lp.get("body"))) if lp_ == path(b_)]
                        if len(asg_) == 1:
                            b2 = unwrap_all_casts(asg_[0])
                            while isinstance(b2, dict) and b2.get("k") == "Construct" and b2.get("copymove") and len(b2.get("args", [])) == 1:
                                b2 = unwrap_all_casts(b2["args"][0])
                            b_ = b2
                    if isinstance(b_, dict) and b_.get("k") == "MCall" and callee_qn(b_) == "%s::%s" % (cls, sp["step"]):
                        rec_ = facts.records.get((b_.get("t") or "").replace("const ", "")) or {}
                        names_ = [f_["n"] for f_ in rec_.get("fields", [])]
                        if m_["n"] in names_:
                            idx_ = names_.index(m_["n"])
                            rets_ = [r_ for r_ in ir.walk(step["body"]) if r_.get("k") == "Return" and r_.get("e") is not None]
                            envs_ = Env(step["body"])

                            def end_test(e_):
                                u_ = unwrap_all_casts(e_)
                                if isinstance(u_, dict) and u_.get("k") == "Ref" and u_.get("d") == "local" and envs_.defs.get(path(u_)[0]) is not None:
                                    u_ = unwrap_all_casts(envs_.defs[path(u_)[0]])
                                if not (isinstance(u_, dict) and u_.get("k") == "Bin" and u_.get("op") == "=="):
                                    return False
                                sides_ = [u_["lhs"], u_["rhs"]]
                                hasc = any(const_value(x_) == sp["end_code"] for x_ in sides_)
                                hasr = False
                                for x_ in sides_:
                                    xu = unwrap_all_casts(x_)
                                    dx = envs_.defs.get(path(xu)[0]) if isinstance(xu, dict) and path(xu) and len(path(xu)) == 1 else None
                                    if dx is not None and any(callee_name(k_) == sp["code"] for k_ in ir.calls_in(dx)):
                                        hasr = True
                                return hasc and hasr
                            good_ = bool(rets_)
                            for r_ in rets_:
                                il = unwrap_all_casts(r_["e"])
                                while isinstance(il, dict) and il.get("k") == "Construct" and len(il.get("args", [])) == 1:
                                    il = unwrap_all_casts(il["args"][0])
                                if isinstance(il, dict) and il.get("k") == "Ref" and il.get("d") == "local":
                                    # a local result filled member by member
                                    sets_ = [rhs for lp, rhs, n_ in consumption.assignment_targets(ir.stmts(step["body"])) if lp == (path(il)[0], m_["n"])]
                                    good_ = good_ and len(sets_) == 1 and end_test(sets_[0])
                                elif isinstance(il, dict) and il.get("k") == "InitList" and len(il.get("c", [])) == len(names_):
                                    # (a return that says "not finished" outright keeps the caller draining: whether the
                                    # failure it stands for is reported is R14.3's question)
                                    good_ = good_ and (end_test(il["c"][idx_]) or const_value(il["c"][idx_]) == 0)
                                else:
                                    good_ = False
                            cmp_ok = good_
            fin_ok = len(steps) == 1 and const_value(steps[0]["args"][-1]) == sp["finish_val"]
            order = {id(n): i for i, n in enumerate(ir.walk(cl["body"]))}
            ends = [x for x in ir.calls_in(cl["body"]) if callee_name(x) == sp["end"]]
            # releasing the stream is not part of delivering the data (a writer that keeps its compressor for the next output
            # releases it in the destructor); what loses data is a release *before* the stream was finished
            end_ok = all(order[id(e_)] > order[id(lp)] for e_ in ends)
            ok = cmp_ok and fin_ok and end_ok
            if not ok:
                why = "close(): loop-until-stream-end=%s, FINISH action=%s, no %s before the stream is finished=%s" % (cmp_ok, fin_ok, sp["end"], end_ok)
        elif len(loops) == 0:
            why = "close() finishes the stream with a single call: pending compressed data beyond one chunk and the trailer are lost"
        run.ob("R14.2", "%s::close:drain-until-stream-end" % tag, ok, cl, cl["line"],
               "drains with FINISH until STREAM_END, then releases the compressor" if ok else why)
        # step: output window = buffer/capacity; forwarded length = capacity - avail_out
        env = Env(step["body"])
        asg = {lp: rhs for lp, rhs, node in consumption.assignment_targets(ir.stmts(step["body"])) if lp}
        no = asg.get(("this", sp["stream"], "next_out"))
        ao = asg.get(("this", sp["stream"], "avail_out"))
        fw = [c for c in ir.calls_in(step["body"]) if callee_qn(c) == BASE + "::write"]
        ok = False
        why = "expected next_out = buffer; avail_out = capacity; ...; m_writer->write(buffer, capacity - avail_out)"
        if no is not None and ao is not None and len(fw) == 1:
            bufp = path(unwrap_all_casts(no))
            cap = unwrap_all_casts(ao)
            a0 = path(unwrap_all_casts(fw[0]["args"][0]))
            ln = unwrap_all_casts(fw[0]["args"][1])
            # the produced count may sit in a member of a local result struct that is stored once, in front of the write
            lnp = path(ln) if isinstance(ln, dict) else None
            if lnp and len(lnp) == 2 and lnp[0].startswith("l:"):
                sets_ = [(rhs, n_) for lp, rhs, n_ in consumption.assignment_targets(ir.stmts(step["body"])) if lp == lnp]
                order_s = {id(x_): i_ for i_, x_ in enumerate(ir.walk(step["body"]))}
                if len(sets_) == 1 and order_s[id(sets_[0][1])] < order_s[id(fw[0])]:
                    ln = unwrap_all_casts(sets_[0][0])
            cap_txt = show(cap)
            ln_ok = False
            if isinstance(ln, dict) and ln.get("k") == "Bin" and ln.get("op") == "-":
                l_txt = show(ln["lhs"])
                r_ok = path(unwrap_all_casts(ln["rhs"])) == ("this", sp["stream"], "avail_out")
                # capacity written either as the same expression/variable or as sizeof(buffer)
                same_cap = l_txt == cap_txt or (unwrap_all_casts(ln["lhs"]).get("k") == "Sizeof" and bufp is not None and path(unwrap_all_casts(unwrap_all_casts(ln["lhs"]).get("e"))) == bufp)
                cv_l, cv_c = const_value(ln["lhs"]), const_value(ao)
                if cv_l is not None and cv_c is not None:
                    same_cap = cv_l == cv_c
                ln_ok = r_ok and same_cap
            ok = bufp is not None and a0 == bufp and ln_ok
            if not ok:
                why = "forwarded %s bytes from %s; the output window was (%s, %s)" % (show(fw[0]["args"][1]), show(fw[0]["args"][0]), show(no), show(ao))
        run.ob("R14.2", "%s::%s:forward-all-produced-bytes" % (tag, sp["step"]), ok, step, step["line"],
               "every produced byte (capacity - avail_out) is forwarded from the same buffer" if ok else why)

        # ---------------- R14.3 return codes
        env = Env(step["body"])
        codes = [c for c in ir.calls_in(step["body"]) if callee_name(c) == sp["code"]]
        okc = False
        why = "the compressor's return code must be compared with OK / STREAM_END and anything else must throw"
        if len(codes) == 1:
            for st, g, loops_ in ir.guarded_statements(step["body"], env):
                if st.get("k") in ("IfCond", "LoopHead", "SwitchHead"):
                    continue
                if any(x is fw[0] for x in ir.walk(st)) if fw else False:
                    # the set of return codes under which the output is forwarded: tabulate the guard over the code's
                    # values (early-exit guard clauses, == chains and != chains all reduce to the same set)
                    keys = set()
                    for a_ in ir.walk_formula(g):
                        if a_[0] == "cmp":
                            keys |= set(x_ for x_ in (a_[2], a_[3]) if not x_.lstrip("-").isdigit())
                        elif a_[0] == "nz":
                            keys.add(a_[1] if isinstance(a_[1], str) else ir.path_str(a_[1]))
                    vals = None
                    import itertools as _it
                    for key_ in sorted(keys):
                        # the return code is the key the guard compares with numbers; every other key (a state flag such as
                        # "stream active") ranges over {0, 1}: a code counts as accepted if some state forwards under it
                        others = sorted(k_ for k_ in keys if k_ != key_)
                        if len(others) > 4:
                            continue
                        acc = set()
                        unknown = False
                        for v_ in range(-12, 20):
                            seen_true = False
                            for combo in _it.product((0, 1), repeat=len(others)):
                                val_ = dict(zip(others, combo))
                                val_[key_] = v_
                                r_ = ir.eval_formula(g, val_)
                                if r_ is None:
                                    unknown = True
                                    break
                                seen_true = seen_true or r_
                            if unknown:
                                break
                            if seen_true:
                                acc.add(v_)
                        if not unknown and acc != set(range(-12, 20)) and (vals is None or acc == set(sp["ok"])):
                            vals = acc
                    if vals is None:
                        okc = None
                        why = "cannot tabulate the guard %s of the forwarding call over the return code" % show_f(g)
                    else:
                        okc = vals == set(sp["ok"])
                        if not okc:
                            why = "output is forwarded when the return code is in %s; only %s may be accepted" % (sorted(vals), sorted(sp["ok"].values()))
            throws = [n for n in ir.walk(step["body"]) if n.get("k") == "Throw"]
            if okc and not throws:
                # the step reports a refused code through its result struct instead: the returns reached without forwarding
                # carry a constant in one member that no other return carries, and every caller tests that member straight
                # after the call and throws
                okc, why = failure_reported_by_result(facts, cls, sp, step, fw[0])
            else:
                okc = (okc and len(throws) >= 1) if okc is not None else None
        run.ob("R14.3", "%s::%s:only-ok-or-end" % (tag, sp["step"]), okc, step, step["line"],
               "only %s are accepted; everything else throws" % "/".join(sp["ok"].values()) if okc else why)

        # ---------------- R14.4 constants
        inits = [c for c in ir.calls_in(op["body"]) if callee_name(c) == sp["init"]]
        if cls == GZ:
            ok = len(inits) == 1 and const_value(inits[0]["args"][3]) == 31
            run.ob("R14.4", "%s::open:gzip-wrapper" % tag, ok, op, op["line"],
                   "deflateInit2 with windowBits 15+16 (gzip framing)" if ok else "deflateInit2 windowBits is %s; gzip framing needs 31" % (const_value(inits[0]["args"][3]) if inits else "?"))
        else:
            ok = len(inits) == 1
            run.ob("R14.4", "%s::open:xz-encoder" % tag, ok, op, op["line"], "lzma_easy_encoder (.xz container)")
        throws = [n for n in ir.walk(op["body"]) if n.get("k") == "Throw"]
        run.ob("R14.4", "%s::open:init-failure-throws" % tag, len(throws) >= 1, op, op["line"], "initialisation failure is reported")
        ctors = [f for f in facts.functions.values() if f.get("cls") == cls and f.get("ctor")]
        sufs = set()
        for cf in ctors:
            parts = [cf["body"]] + [i_.get("init") for i_ in cf.get("inits", []) or [] if i_.get("member") and i_.get("init") is not None]
            for part in parts:
                for x in ir.walk(part):
                    if x.get("k") == "Str":
                        sufs.add(x.get("v"))
        ok = sufs == {sp["suffix"]} and bool(ctors)
        run.ob("R14.4", "%s:suffix" % tag, ok, ctors[0] if ctors else None, 0,
               "named outputs carry the %s suffix" % sp["suffix"] if ok else "suffix literals in the constructors: %s (expected %s)" % (sorted(sufs), sp["suffix"]))

        # ---------------- R14.5 one complete stream per output
        ro = facts.fn(cls + "::rotate_output", rule="R14.5")
        calls = ordered_calls(ro)
        seq = []
        for c in calls:
            if c[0].get("k") == "MCall" and unwrap(c[0].get("recv") or {}).get("k") == "This" and callee_name(c[0]) in ("close", "open"):
                seq.append(callee_name(c[0]))
            if callee_qn(c[0]) == BASE + "::rotate_output":
                seq.append("inner")
        ok = seq == ["close", "inner", "open"] and all(c[1] == ("T",) for c in calls)
        run.ob("R14.5", "%s::rotate_output:close-inner-open" % tag, ok, ro, ro["line"],
               "stream finished, inner writer rotated, new stream started" if ok else "sequence is %s" % seq)
        dt = facts.fn("%s::~%s" % (cls, cls.split("::")[-1]), rule="R14.5")
        ok = any(callee_name(c) == "close" for c in ir.calls_in(dt["body"]))
        run.ob("R14.5", "%s::~:closes" % tag, ok, dt, dt["line"], "the destructor finishes the stream")
    run.floor("R14.1", 2, "scratch buffers")
    run.floor("R14.2", 8, "loop/forwarding obligations")
    run.floor("R14.3", 2, "return-code checks")
    run.floor("R14.4", 6, "format constants")
    run.floor("R14.5", 4, "stream-per-output obligations")
