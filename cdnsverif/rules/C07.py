"""C07 The CBOR decoder accepts every well-formed encoding and skips exactly one item (structural clauses)."""
from .. import ir, decoder, consumption, minieval, tables
from ..ir import (cond, conjuncts, path, path_str, unwrap, unwrap_all_casts, callee_name, callee_qn, const_value,
                  show, show_f, Env)
from ..facts import AnalysisBroken

DEC = "CDNS::CdnsDecoder"

META = {
    "level": "other",
    "rule_text": "R07.1 skip_item dispatches on all eight major types; R07.2 every end-of-indefinite test agrees with "
                 "peek_type's own contract for byte 0xFF; R07.3 the TAG arm skips the enclosed item; R07.4 read_int "
                 "consumes 1/2/4/8 bytes big-endian for ai 24..27 and every reader rejects exactly the reserved ai values "
                 "(tabulated over all 32 ai values with a concrete mini-evaluator of the guards); R07.5 every reader "
                 "takes its head through read_cbor_type. R07.1/R07.3 tabulate skip_item per (major type, class of additional information); R07.4 tracks input byte -> bit position; R07.8 is R03.8 on the decoder. R07.6 also tabulates read_array_start / read_map_start over 8 major types x 32 additional-information values: returned count, and the indefinite-length flag stored on every accepting path. R07.4 tabulates read_int per additional-information value over every path through the function and every way the argument can be split across refills (assembly.py: integer locals concrete, input bytes as byte-index -> bit-position maps, the window size chosen exhaustively); each returning path must yield the RFC 8949 big-endian layout and consume exactly the argument. Where that walk meets a construct it does not model, every alternative assembly loop (a fast path over buffered bytes, the byte-by-byte path) is analysed separately; window-state branches select the alternative. R07.9: the string read_string returns is only ever extended (no assign / = / clear). R07.10 = R05.5. R07.11 = R05.2 (every read through the cursor and every move of it stays inside the window: where an item lies relative to the 64 KiB refills does not change what is decoded). R07.12 = R05.6. R07.1 evaluates constant rule tables indexed by the major type and counted loops in skip_item's dispatch. R07.4 reports a path on which read_int reads or moves beyond the buffered bytes with the window sizes of that path. R07.2 also decides the polarity of every stop-code test that controls a read_break(): the call is reached where the test says the next byte IS the stop code (then / else branch, or the exit of a `while (peek != BREAK)` loop). R07.13: the explicit work stack of skip_item - read_break() only for a level flagged indefinite and followed by a pop in the same list, a definite level popped under count == 0 and counted down otherwise, every `continue` in front of the head preceded by a pop; a different discipline (count written elsewhere in the loop) is unrecognised, the recursive form has no such obligations. R07.14: read_cbor_type on every returning path stores m_p[0] & 0xE0 and m_p[0] & 0x1F before the cursor moves, and the cursor moves exactly once by one byte. R07.9 also: a statement list of read_string (or a private helper that gets its result) that moves the cursor has appended the bytes under it to the result first.",
    "explanation": "Structural/necessary conditions decided from the decoder's source: exhaustiveness of the dispatch, "
                   "caller/callee belief agreement on the stop code, finite tabulation of the additional-information "
                   "domain. Does not decide value equality for all encodings beyond the width table.",
    "trusted_base": ["clang 14 AST", "RFC 8949 tables in rfc8618_tables.json"],
    "assumptions": ["read_to_buffer honours its contract (decided by C05)"],
}


def dfn(facts, name, rule):
    return facts.fn("CDNS::CdnsDecoder::" + name, rule=rule)


def peek_contract(facts):
    """'BREAK' if peek_type maps byte 0xFF to CborType::BREAK, 'MAJOR' if it only masks the major bits."""
    f = dfn(facts, "peek_type", "R07.2")
    # first choice: peek_type evaluated for each of the 256 values of the byte under the cursor
    from .. import minieval
    brk = [e_["v"] for e_ in facts.enum("CDNS::CborType", rule="R07.2")["enumerators"] if e_["n"] == "BREAK"]
    if brk:
        table = {}
        for b in range(256):
            env = {"this.m_p[0]": b}
            try:
                r = minieval.run_straightline(ir.stmts(f["body"]), env, facts.enums)
                if r[0] != "return" or r[1].get("e") is None:
                    table = None
                    break
                table[b] = minieval.ev(unwrap(r[1]["e"]), env, facts.enums) & 0xFF
            except (minieval.Unknown, KeyError, TypeError):
                table = None
                break
        if table is not None:
            if all(table[b] == (b & 0xE0) for b in range(255)) and table[255] == brk[0] & 0xFF:
                return "BREAK", f
            if all(table[b] == (b & 0xE0) for b in range(256)):
                return "MAJOR", f
    rets = [n for n in ir.walk(f["body"]) if n.get("k") == "Return" and n.get("e") is not None]
    special = False
    for n in ir.walk(f["body"]):
        if n.get("k") == "If":
            cmpn = unwrap(n["cond"])
            hit = False
            if isinstance(cmpn, dict) and cmpn.get("k") == "Bin" and cmpn.get("op") == "==":
                sides = [unwrap_all_casts(cmpn["lhs"]), unwrap_all_casts(cmpn["rhs"])]
                isbrk = [x for x in sides if isinstance(x, dict) and x.get("d") == "enumconst" and x.get("n") == "BREAK"]
                ismp = [x for x in sides if isinstance(x, dict) and decoder.is_mp_deref(x) is not None]
                hit = len(isbrk) == 1 and len(ismp) == 1
            if hit:
                for r in ir.walk(n["then"]):
                    if r.get("k") == "Return":
                        er = ir.enum_ref(r.get("e"))
                        if er and er[1] == "BREAK":
                            special = True
                    # the answer may go through a variable (a member that remembers it, a local) that the function then returns
                    if r.get("k") == "Bin" and r.get("op") == "=" and path(r.get("lhs")) is not None:
                        er = ir.enum_ref(r.get("rhs"))
                        if er and er[1] == "BREAK" and any(path(x.get("e")) == path(r["lhs"]) for x in rets):
                            special = True
    # the same decision as a conditional expression: `return byte == BREAK ? BREAK : major(byte);`
    for r in rets:
        for c in ir.walk(r.get("e")):
            if c.get("k") == "Cond":
                cmpn = unwrap_all_casts(c.get("c"))
                if isinstance(cmpn, dict) and cmpn.get("k") == "Bin" and cmpn.get("op") == "==":
                    sides = [unwrap_all_casts(cmpn["lhs"]), unwrap_all_casts(cmpn["rhs"])]
                    isbrk = [x for x in sides if isinstance(x, dict) and x.get("d") == "enumconst" and x.get("n") == "BREAK"]
                    ismp = [x for x in sides if isinstance(x, dict) and decoder.is_mp_deref(x) is not None]
                    er = ir.enum_ref(c.get("a"))
                    if len(isbrk) == 1 and len(ismp) == 1 and er and er[1] == "BREAK":
                        special = True
    return ("BREAK" if special else "MAJOR"), f


def stop_tests(facts):
    """All comparisons of peek_type() with a CborType enumerator: [(fn, node, enumerator, is_stop_test, line)]"""
    out = []
    for f in facts.functions.values():
        if not f.get("file", "").startswith(facts.repo):
            continue
        body = f["body"]
        for n, parents in ir.walk_with_parents(body):
            if n.get("k") != "Bin" or n.get("op") not in ("==", "!="):
                continue
            sides = [unwrap_all_casts(n["lhs"]), unwrap_all_casts(n["rhs"])]
            pk = [s for s in sides if isinstance(s, dict) and s.get("k") == "MCall" and callee_qn(s) == "CDNS::CdnsDecoder::peek_type"]
            en = [s for s in sides if isinstance(s, dict) and s.get("k") == "Ref" and s.get("d") == "enumconst" and s.get("enum") == "CDNS::CborType"]
            if len(pk) != 1 or len(en) != 1:
                continue
            name = en[0]["n"]
            # stop-code intent: the controlled region consumes the stop code, or the test is conjoined with (m_p[0]&0x1F)==31
            stop = False
            ctrl = None
            for p in reversed(parents):
                if p.get("k") in ("If", "While", "For", "Do"):
                    ctrl = p
                    break
            if name == "BREAK":
                stop = True
            elif ctrl is not None:
                txt = show(ctrl.get("cond"))
                if "31" in txt and "m_p" in txt:
                    stop = True
                region = ctrl.get("then") if ctrl.get("k") == "If" else None
                if region is not None and any(callee_name(c) == "read_break" for c in ir.calls_in(region)):
                    stop = True
                if ctrl.get("k") in ("While", "For", "Do"):
                    # loop exit followed by read_break(): find the enclosing block and the next statement
                    for p in reversed(parents):
                        if p.get("k") == "Block" and ctrl in p.get("s", []):
                            lst = p["s"]
                            nxt = lst[lst.index(ctrl) + 1:lst.index(ctrl) + 2]
                            if nxt and any(callee_name(c) == "read_break" for c in ir.calls_in(nxt[0])):
                                stop = True
            out.append((f, n, name, stop, n.get("l", 0)))
            if name == "BREAK" and ctrl is not None:
                POLARITY[id(n)] = _break_known_where_consumed(n, parents, ctrl)
    return out


POLARITY = {}


def _break_known_where_consumed(n, parents, ctrl):
    """For a comparison of peek_type() with BREAK that decides where read_break() is called: does `peek_type() == BREAK` hold
    at that call?  True / False, or None when the test does not decide it (or no read_break() depends on it)."""
    croot = ctrl.get("cond") if ctrl.get("cond") is not None else ctrl.get("c")
    if croot is None:
        return None
    chain = list(parents) + [n]
    idx = None
    for i, p_ in enumerate(chain):
        if p_ is croot:
            idx = i
    if idx is None:
        # the condition may be wrapped (casts / parens): take the first chain element below ctrl that lies inside croot
        inside = set(id(x) for x in ir.walk(croot))
        for i, p_ in enumerate(chain):
            if id(p_) in inside:
                idx = i
                break
    if idx is None:
        return None

    def descend(value):
        v = value
        for a, b in zip(chain[idx:], chain[idx + 1:]):
            k = a.get("k")
            if k == "Un" and a.get("op") == "!":
                v = not v
            elif k == "Bin" and a.get("op") == "&&":
                if v is not True:
                    return None
            elif k == "Bin" and a.get("op") == "||":
                if v is not False:
                    return None
            elif k in ("Cast", "Paren", "ExprWithCleanups"):
                pass
            else:
                return None
        return v
    has_rb = lambda r: r is not None and any(callee_name(c) == "read_break" for c in ir.calls_in(r))
    where = None
    if ctrl.get("k") == "If":
        if has_rb(ctrl.get("then")) and not has_rb(ctrl.get("else")):
            where = True
        elif has_rb(ctrl.get("else")) and not has_rb(ctrl.get("then")):
            where = False
    else:
        body = ctrl.get("body")
        if not has_rb(body) and not any(x.get("k") == "Break" for x in ir.walk(body)):
            for p_ in reversed(parents):
                if p_.get("k") == "Block" and any(ctrl is y for y in p_.get("s", [])):
                    lst = p_["s"]
                    i_ = [j for j, y in enumerate(lst) if y is ctrl][0]
                    nxt = lst[i_ + 1:i_ + 2]
                    if nxt and has_rb(nxt[0]):
                        where = False           # the loop is left when its condition is false
                    break
    if where is None:
        return None
    t = descend(where)
    if t is None:
        return None
    return t if n.get("op") == "==" else (not t)


def check_stop_agreement(run, rule):
    facts = run.facts
    contract, pf = peek_contract(facts)
    run.ob(rule, "peek_type:contract", True, pf, pf["line"],
           "peek_type reports byte 0xFF as CborType::%s" % ("BREAK" if contract == "BREAK" else "SIMPLE (no special case)"), nontrivial=False)
    sites = stop_tests(facts)
    seen = {}
    for f, n, name, stop, line in sites:
        base = "%s:peek_type()%s%s" % (f["qn"].replace("CDNS::", ""), n["op"], name)
        seen[base] = seen.get(base, 0) + 1
        key = base if seen[base] == 1 else "%s#%d" % (base, seen[base])
        if not stop:
            run.ob(rule, key, True, f, line, "not an end-of-indefinite test", nontrivial=False)
            continue
        want = "BREAK" if contract == "BREAK" else "SIMPLE"
        ok = name == want
        if ok and POLARITY.get(id(n)) is False:
            run.ob(rule, key + ":polarity", False, f, line,
                   "read_break() is called where this test says the next byte is NOT the stop code, and the items are taken where it says "
                   "it is: a well-formed indefinite-length item is refused (read_break() throws on its first member) or its stop code is "
                   "read as a member")
        elif ok and POLARITY.get(id(n)) is True:
            run.ob(rule, key + ":polarity", True, f, line, "read_break() is called where the test has found the stop code")
        run.ob(rule, key, ok, f, line,
               "stop code tested against CborType::%s, as peek_type reports it" % want if ok else
               "end-of-indefinite test compares peek_type() with CborType::%s, but peek_type returns CborType::%s for the stop "
               "code 0xFF: the test can never succeed (indefinite-length items are rejected or run to end of input)" % (name, want))
    run.floor(rule, 20, "sites that test peek_type()")
    run.info["stop_code_test_sites"] = len([s for s in sites if s[3]])


def skip_actions(facts, rule):
    """Tabulates what one iteration of skip_item's work loop does after read_cbor_type(), for every major type and a
    representative of every class of additional information.  Returns (fn, {(major name, ai): [action,..]}) with actions
    ('throw',) | ('read_int',) | ('read_string', indef) | ('push', count, indef) where count is an int or 'N' (the
    argument just read) or 'N*2'.  Control flow is followed concretely (the two bytes of the head decide it)."""
    f = dfn(facts, "skip_item", rule)
    loops = [n for n in ir.walk(f["body"]) if n.get("k") in ("While", "For", "Do")]
    region = None
    tvar = avar = None
    for lp in loops:
        body = ir.stmts(lp.get("body"))
        for i, s_ in enumerate(body):
            for c in ir.calls_in(s_):
                if callee_qn(c) == "CDNS::CdnsDecoder::read_cbor_type" and len(c.get("args", [])) == 2 and region is None:
                    tvar, avar = path_str(path(c["args"][0])), path_str(path(c["args"][1]))
                    region = body[i + 1:]
    if region is None:
        # recursive form: the head is read at function level
        body = ir.stmts(f["body"])
        for i, s_ in enumerate(body):
            for c in ir.calls_in(s_):
                if callee_qn(c) == "CDNS::CdnsDecoder::read_cbor_type" and len(c.get("args", [])) == 2 and region is None:
                    tvar, avar = path_str(path(c["args"][0])), path_str(path(c["args"][1]))
                    region = body[i + 1:]
    if region is None:
        # the head taken apart in place (a result struct's members after the normalisation): locals initialised with
        # `m_p[0] & 0xE0` (major type) and `m_p[0] & 0x1F` (additional information), then the cursor moves on
        def head_part(init):
            u_ = unwrap_all_casts(init) if init is not None else None
            if isinstance(u_, dict) and u_.get("k") == "Bin" and u_.get("op") == "&" and decoder.is_mp_deref(unwrap_all_casts(u_["lhs"])) is not None:
                return const_value(u_["rhs"])
            return None
        for lp in loops + [{"body": f["body"]}]:
            body = ir.stmts(lp.get("body"))
            tv = av = None
            last = None
            for i, s_ in enumerate(body):
                if s_.get("k") == "Decl":
                    for v_ in s_.get("vars", []):
                        m_ = head_part(v_.get("init"))
                        if m_ == 0xE0 and "n" in v_:
                            tv, last = "l:%s#%s" % (v_["n"], v_["id"]), i
                        elif m_ == 0x1F and "n" in v_:
                            av, last = "l:%s#%s" % (v_["n"], v_["id"]), i
                elif tv and av and any(decoder.is_mp_move(x) for x in ir.walk(s_)) and i == last + 1:
                    last = i
            if tv and av and region is None:
                tvar, avar, region = tv, av, body[last + 1:]
    if region is None:
        raise AnalysisBroken(rule, "skip_item: no read_cbor_type(type, ai) call found")
    cb = facts.enum("CDNS::CborType", rule=rule)
    majors = [(e["n"], e["v"]) for e in cb["enumerators"] if e["n"] != "BREAK"]
    enums = facts.enums

    class Stop(Exception):
        pass

    def run_cell(mv, ai):
        env = {tvar: mv, avar: ai}
        acts = []
        counts = {}         # local key -> 'N'

        def descr(e_):
            u_ = ir.unwrap_all_casts(e_)
            if isinstance(u_, dict) and u_.get("k") in ("MCall", "Call") and callee_name(u_) == "read_int":
                acts.append(("read_int",))
                return "N"
            p_ = path(u_) if isinstance(u_, dict) else None
            if p_ is not None and path_str(p_) in counts:
                return counts[path_str(p_)]
            if isinstance(u_, dict) and u_.get("k") == "Bin" and u_.get("op") == "*":
                a_, b_ = descr(u_["lhs"]), descr(u_["rhs"])
                if a_ == "N" and b_ == 2 or b_ == "N" and a_ == 2:
                    return "N*2"
            try:
                return minieval.ev(unwrap(e_), env, enums)
            except minieval.Unknown:
                return "?"

        def table_row(key_, init):
            """`const Rule& r = rules[<head-decided index>];` with `rules` a constant local array of aggregates: the members of r"""
            u_ = unwrap_all_casts(init)
            if not (isinstance(u_, dict) and u_.get("k") == "Index"):
                return False
            b_ = unwrap_all_casts(u_.get("base"))
            if not (isinstance(b_, dict) and b_.get("k") == "Ref" and b_.get("d") in ("local", "staticlocal")):
                return False
            arr = None
            for d_ in ir.walk(f["body"]):
                if d_.get("k") == "Decl":
                    for v_ in d_.get("vars", []):
                        if v_.get("id") == b_.get("id") and v_.get("n") == b_.get("n") and "const" in (v_.get("t") or ""):
                            arr = unwrap_all_casts(v_.get("init")) if v_.get("init") is not None else None
            if not (isinstance(arr, dict) and arr.get("k") == "InitList"):
                return False
            i_ = minieval.ev(unwrap(u_["idx"]), env, enums)
            rows = arr.get("c", [])
            if not (0 <= i_ < len(rows)):
                raise minieval.Unknown("row %s of a %d-row table" % (i_, len(rows)))
            row = unwrap_all_casts(rows[i_])
            tn_ = (row.get("t") or "").replace("const ", "") if isinstance(row, dict) else ""
            rec_ = facts.records.get(tn_)
            if rec_ is None and tn_:
                cands_ = [r_ for q_, r_ in facts.records.items() if q_.endswith("::" + tn_)]
                rec_ = cands_[0] if len(set(id(x) for x in cands_)) == 1 else None
            if not (isinstance(row, dict) and row.get("k") == "InitList" and rec_ and len(rec_.get("fields", [])) == len(row.get("c", []))):
                return False
            for fld, val in zip(rec_["fields"], row["c"]):
                env["%s.%s" % (key_, fld["n"])] = minieval.ev(unwrap(val), env, enums)
            return True

        def call(u_):
            nm = callee_name(u_)
            if nm == "read_int":
                acts.append(("read_int",))
            elif nm == "read_string":
                a = u_.get("args", [])
                n_ = descr(a[1]) if len(a) > 1 else "?"
                indef_ = descr(a[2]) if len(a) > 2 else "?"
                acts.append(("read_string", bool(indef_) if indef_ != "?" else "?"))
            elif nm in ("push_back", "emplace_back"):
                elems = []
                for x in ir.walk(u_):
                    if x.get("k") == "InitList":
                        elems = [y for y in x.get("c", []) if isinstance(y, dict)]
                        break
                if not elems:
                    elems = [a_ for a_ in u_.get("args", [])]
                if len(elems) >= 2:
                    acts.append(("push", descr(elems[0]), bool(descr(elems[1])) if descr(elems[1]) != "?" else "?"))
                else:
                    acts.append(("push", "?", "?"))
            elif nm == "skip_item":
                acts.append(("push", 1, False))        # recursion: one more item is skipped
            elif nm in ("to_string", "c_str", "operator+"):
                pass
            else:
                for a_ in u_.get("args", []):
                    for c_ in ir.calls_in(a_):
                        call(c_)

        def walk_(stmts_):
            for s_ in stmts_:
                u_ = unwrap(s_)
                k_ = u_.get("k")
                if k_ == "Block":
                    walk_(u_.get("s", []))
                elif k_ == "If":
                    t_ = minieval.ev(unwrap(u_["cond"]), env, enums)
                    br = u_.get("then") if t_ else u_.get("else")
                    if br is not None:
                        walk_(ir.stmts(br))
                elif k_ == "Switch":
                    on = minieval.ev(unwrap(u_["cond"]), env, enums)
                    hit = dflt = None
                    for labels, sts_, falls, line in consumption.case_groups(u_):
                        if any(l[0] == "case" and l[1] == on for l in labels):
                            hit = (sts_, falls)
                        if any(l[0] == "default" for l in labels):
                            dflt = (sts_, falls)
                    sel = hit or dflt
                    if sel is not None:
                        if sel[1]:
                            acts.append(("fallthrough",))
                        try:
                            walk_([x for x in sel[0]])
                        except Stop as st_:
                            if str(st_) != "break":
                                raise
                elif k_ == "Throw":
                    acts.append(("throw",))
                    raise Stop("throw")
                elif k_ == "Break":
                    raise Stop("break")
                elif k_ == "Continue":
                    acts.append(("continue",))        # what this means depends on the bookkeeping around the region
                    raise Stop("leave")
                elif k_ == "Return":
                    raise Stop("leave")
                elif k_ == "Decl":
                    for v in u_.get("vars", []):
                        if "n" not in v or v.get("init") is None:
                            continue
                        key_ = "l:%s#%s" % (v["n"], v["id"])
                        if table_row(key_, v["init"]):
                            continue
                        d_ = descr(v["init"])
                        if d_ in ("N", "N*2"):
                            counts[key_] = d_
                        elif d_ != "?":
                            env[key_] = d_
                elif k_ in ("For", "While"):
                    # a counted loop over values the head decides (`for (i = 0; i < rule.nested; i++) push(..)`)
                    if k_ == "For" and u_.get("init") is not None:
                        walk_([u_["init"]])
                    rounds = 0
                    while u_.get("cond") is None or minieval.ev(unwrap(u_["cond"]), env, enums):
                        rounds += 1
                        if rounds > 16:
                            raise minieval.Unknown("a loop in the dispatch does not end within 16 rounds")
                        try:
                            walk_(ir.stmts(u_.get("body")))
                        except Stop as st_:
                            if str(st_) == "break":
                                break
                            raise
                        if k_ == "For" and u_.get("inc") is not None:
                            minieval.step(unwrap(u_["inc"]), env, enums)
                elif k_ in ("Call", "MCall", "OpCall"):
                    call(u_)
                elif k_ == "Bin" and u_.get("op", "").endswith("=") and u_["op"] not in ("==", "!=", "<=", ">="):
                    for c_ in ir.calls_in(u_.get("rhs")):
                        call(c_)
                elif k_ == "Un":
                    pass
                elif k_ == "Null":
                    pass
                else:
                    raise minieval.Unknown("statement %s" % k_)
        try:
            walk_(region)
        except Stop:
            pass
        return acts
    table = {}
    for name, mv in majors:
        for ai in (0, 23, 24, 27, 28, 30, 31):
            try:
                table[(name, ai)] = run_cell(mv, ai)
            except minieval.Unknown as ex:
                table[(name, ai)] = [("unknown", str(ex))]
    return f, table


def check_skip(run, rule_exh="R07.1", rule_tag="R07.3"):
    """skip_item consumes exactly one data item: per major type and class of additional information the iteration does
    what RFC 8949 prescribes for that head (tabulated over the 8 x 7 head classes, independent of switch / if-chain)."""
    facts = run.facts
    f, table = skip_actions(facts, rule_exh)
    cb = facts.enum("CDNS::CborType", rule=rule_exh)
    majors = [e["n"] for e in cb["enumerators"] if e["n"] != "BREAK"]

    def expected(mj, ai):
        if 28 <= ai <= 30:
            return [[("throw",)]]
        if mj in ("UNSIGNED", "NEGATIVE"):
            return [[("throw",)]] if ai == 31 else [[("read_int",)]]
        if mj == "TAG":
            return [[("throw",)]] if ai == 31 else [[("read_int",), ("push", 1, False)]]
        if mj == "SIMPLE":
            return None if ai == 31 else [[("read_int",)]]
        if mj in ("BYTE_STRING", "TEXT_STRING"):
            # (read_int(31) takes no byte from the input: for an indefinite-length string it may be called or not)
            return [[("read_int",), ("read_string", ai == 31)]] + ([[("read_string", True)]] if ai == 31 else [])
        if mj == "ARRAY":
            return [[("push", 0, True)]] if ai == 31 else [[("read_int",), ("push", "N", False)]]
        if mj == "MAP":
            return [[("push", 0, True)]] if ai == 31 else [[("read_int",), ("push", "N", False), ("push", "N", False)], [("read_int",), ("push", "N*2", False)]]
        return None
    for mj in majors:
        bad = []
        unknown = []
        for ai in (0, 23, 24, 27, 28, 30, 31):
            exp = expected(mj, ai)
            got = table.get((mj, ai))
            if exp is None:
                continue
            if got and got[0][0] == "unknown":
                unknown.append("ai %d: %s" % (ai, got[0][1]))
            elif got and ("continue",) in got and got not in exp:
                unknown.append("ai %d: leaves the iteration early (%s); its effect depends on bookkeeping outside the dispatch" % (ai, got))
            elif got not in exp:
                bad.append("ai %d: does %s, a well-formed head of this kind needs %s" % (ai, got, exp[0]))
        ok = None if unknown and not bad else (not bad)
        run.ob(rule_exh, "skip_item:arm(%s)" % mj, ok, f, f["line"],
               "major type %s: argument, content and nesting are consumed as RFC 8949 prescribes for every class of additional information" % mj if ok else
               ("skip_item, major type %s: %s" % (mj, "; ".join(bad or unknown))))
    run.floor(rule_exh, 8, "major types")
    # TAG: content must be skipped after the tag number
    got = table.get(("TAG", 0))
    ok = got == [("read_int",), ("push", 1, False)]
    if not ok and got and (got[0][0] == "unknown" or ("continue",) in got):
        ok = None
    run.ob(rule_tag, "skip_item:TAG-content", ok, f, f["line"],
           "tag number consumed, then the enclosed item is skipped" if ok else
           "the TAG arm does %s: it must read the tag number and then skip exactly the one tagged item (otherwise the content is read as the next item)" % got)
    run.floor(rule_tag, 1, "tag arm")


def check_read_int(run, rule):
    facts = run.facts
    f = dfn(facts, "read_int", rule)
    enums = facts.enums
    pname = "p:%s" % f["params"][0]["n"]
    # ai <= 23 -> returns ai itself
    st = ir.stmts(f["body"])
    from .. import assembly as _asm
    garrays = {}
    for gv in facts.vars:
        il_ = unwrap_all_casts(gv.get("init")) if gv.get("init") is not None else None
        if gv.get("const") and isinstance(il_, dict) and il_.get("k") == "InitList":
            vals_ = [const_value(c_) for c_ in il_.get("c", [])]
            if vals_ and all(isinstance(x_, int) for x_ in vals_):
                garrays[gv["qn"]] = vals_
                garrays[gv["qn"].split("::")[-1]] = vals_
    for ai in (0, 1, 23):
        env = {pname: ai}
        r = minieval.run_straightline(st, env, enums)
        ok = r[0] == "return" and path(r[1].get("e")) == (pname,)
        if not ok:
            # the value may come back through a table / switch: every path returns the constant ai and takes no byte
            try:
                ps_ = _asm.explore(f, pname, ai, 0, enums, arrays=garrays)
                ok = bool(ps_) and all(p_[0] == "const" and p_[1] == ai and p_[2] == 0 for p_ in ps_)
            except minieval.Unknown:
                pass
        run.ob(rule, "read_int:ai=%d" % ai, ok, f, f["line"], "ai %d yields the value itself" % ai if ok else "ai %d does not return the value itself" % ai,
               nontrivial=False)
    # 24..27: locate loop, evaluate count and shifts
    loops = [n for n in ir.walk(f["body"]) if n.get("k") in ("For", "While", "Do")
             and any(x.get("k") == "Bin" and x.get("op") == "<<" for x in ir.walk(n.get("body") or {}))]
    def reach(stmts_, env_, lp_):
        """run_straightline up to lp_; a branch that cannot be evaluated because it tests the state of the window (how many
        bytes are buffered) is assumed to go the way that leads to lp_: every such alternative is a loop of its own here"""
        for s_ in stmts_:
            if s_ is lp_:
                return "reached"
            inside = any(x is lp_ for x in ir.walk(s_))
            if s_.get("k") == "If" and inside:
                try:
                    c_ = minieval.ev(unwrap(s_["cond"]), env_, enums)
                except minieval.Unknown:
                    txt = show(s_["cond"])
                    if "m_p" not in txt and "m_end" not in txt:
                        return "unknown"
                    c_ = any(x is lp_ for x in ir.walk(s_["then"]))
                br_ = s_["then"] if c_ else s_.get("else")
                if br_ is None or not any(x is lp_ for x in ir.walk(br_)):
                    return "not reached"
                return reach(ir.stmts(br_), env_, lp_)
            if s_.get("k") == "Block" and inside:
                return reach(s_.get("s", []), env_, lp_)
            if inside:
                return "unknown"
            if s_.get("k") == "If" and s_.get("else") is None and ir.always_leaves(s_.get("then")):
                # an alternative that takes care of itself (`if (<all bytes buffered>) { ..; return v; }`): when its test cannot
                # be evaluated because it looks at the window, going on means it was not taken
                try:
                    taken = minieval.ev(unwrap(s_["cond"]), env_, enums)
                except minieval.Unknown:
                    txt = show(s_["cond"])
                    if "m_p" in txt or "m_end" in txt:
                        continue
                    return "unknown"
                if not taken:
                    continue
            r_ = minieval.run_straightline([s_], env_, enums)
            if r_[0] != "end":
                return "not reached" if r_[0] in ("return", "throw") else "unknown"
        return "not reached"

    def trailing_moves(lp_, env_):
        """bytes by which the statements following the loop in its block advance the cursor (`m_p += bytes`)"""
        for b in ir.walk(f["body"]):
            if b.get("k") == "Block" and any(x is lp_ for x in b.get("s", [])):
                sts_ = b["s"]
                i_ = [j for j, x in enumerate(sts_) if x is lp_][0]
                tot = 0
                for s_ in sts_[i_ + 1:]:
                    for n_ in ir.walk(s_):
                        if n_.get("k") == "Bin" and n_.get("op") == "+=" and path(n_.get("lhs")) == ("this", "m_p"):
                            tot += minieval.ev(unwrap(n_["rhs"]), env_, enums)
                        elif decoder.is_mp_move(n_):
                            tot += 1
                return tot
        return 0

    # the general tabulation first (assembly.py): every path through the function for each of the four values, over every way
    # the argument can be split across refills.  Only when it meets something it does not understand does the per-loop analysis
    # below get its turn.
    from .. import assembly
    tab = {}
    try:
        for ai, want in ((24, 1), (25, 2), (26, 4), (27, 8)):
            try:
                tab[ai] = assembly.explore(f, pname, ai, want, enums, arrays=garrays)
            except assembly.OutOfWindow as ow:
                tab[ai] = [("outside", str(ow), 0, ow.choices)]
    except minieval.Unknown as ex:
        tab = None
    if tab is not None:
        for ai, want in ((24, 1), (25, 2), (26, 4), (27, 8)):
            wantmap = {k_: 8 * (want - 1 - k_) for k_ in range(want)}
            paths = tab[ai]
            bad = [p_ for p_ in paths if not (p_[0] == "bytes" and p_[1] == wantmap and p_[2] == want)]
            ok = bool(paths) and not bad
            if ok:
                txt = "consumes %d byte(s), most significant first, on each of the %d path(s) over the ways the argument can be split across refills" % (want, len(paths))
            elif not paths:
                txt = "no path returns for additional information %d" % ai
            elif bad and bad[0][0] == "outside":
                txt = "for additional information %d, on the path with window sizes %s (bytes buffered on entry, then what each refill delivers) read_int %s: " \
                      "it takes bytes that were never read from the input" % (ai, list(bad[0][3]), bad[0][1])
            else:
                b_ = bad[0]
                shifts = [b_[1].get(k_) for k_ in sorted(b_[1])] if b_[0] == "bytes" else b_[1]
                txt = "for additional information %d a path (window sizes chosen: %s) consumes %d byte(s) and returns them at bit positions %s; " \
                      "RFC 8949 needs %d byte(s) big-endian %s" % (ai, list(b_[3]), b_[2], shifts, want, [8 * (want - 1 - k_) for k_ in range(want)])
            run.ob(rule, "read_int:ai=%d" % ai, ok, f, f["line"], txt)
        loops = []
    elif not loops:
        for ai in (24, 25, 26, 27):
            run.ob(rule, "read_int:ai=%d" % ai, None, f, f["line"], "no loop assembling the argument with a shift was found")
    for li, (lp, ai, want) in enumerate((lp_, ai_, want_) for lp_ in loops for ai_, want_ in ((24, 1), (25, 2), (26, 4), (27, 8))):
        key = "read_int:ai=%d" % ai + ("" if lp is loops[0] else "#path%d" % (1 + [j for j, x in enumerate(loops) if x is lp][0]))
        env = {pname: ai}
        # is the loop reached for this ai?
        r = reach(st, env, lp)
        if r != "reached":
            if r == "unknown":
                run.ob(rule, key, None, f, lp["l"], "whether additional information %d reaches this byte-assembly loop depends on a condition "
                       "the rule cannot evaluate" % ai)
            else:
                run.ob(rule, key, False, f, lp["l"], "additional information %d does not reach the byte-assembly loop (%s)" % (ai, r))
            continue
        try:
            if lp["k"] == "For" and lp.get("init") is not None:
                if lp["init"].get("k") == "Decl":
                    for v in lp["init"].get("vars", []):
                        env["l:%s#%s" % (v["n"], v["id"])] = minieval.ev(unwrap(v["init"]), env, enums)
                else:
                    minieval.step(unwrap(lp["init"]), env, enums)
            # walk the loop over its (finite) counter values; the argument is tracked as a map  input byte -> bit position
            # it ends up at, so `value += byte << ((i-1)*8)` and `value = (value << 8) | byte` are the same thing
            sym = {}            # variable key -> {byte index: shift}
            moves = [0]

            def symev(e_):
                u_ = ir.unwrap_all_casts(e_)
                if not isinstance(u_, dict):
                    raise minieval.Unknown("byte expression")
                cv_ = const_value(e_)
                if cv_ is None:
                    cv_ = const_value(u_)
                if cv_ == 0:
                    return {}
                p_ = path(u_)
                if p_ is not None and u_.get("k") in ("Ref",) and ir.path_str(p_) in sym:
                    return dict(sym[ir.path_str(p_)])
                if u_.get("k") == "Index" and path(u_.get("base")) == ("this", "m_p"):
                    off = minieval.ev(unwrap(u_["idx"]), env, enums)
                    return {moves[0] + off: 0}
                if u_.get("k") == "Un" and u_.get("op") == "*" and path(u_.get("e")) == ("this", "m_p"):
                    return {moves[0]: 0}
                if u_.get("k") == "Bin" and u_.get("op") == "<<":
                    sh = minieval.ev(unwrap(u_["rhs"]), env, enums)
                    return {k_: v_ + sh for k_, v_ in symev(u_["lhs"]).items()}
                if u_.get("k") == "Bin" and u_.get("op") == "*":
                    m_ = minieval.ev(unwrap(u_["rhs"]), env, enums)
                    if m_ > 0 and m_ & (m_ - 1) == 0:
                        return {k_: v_ + m_.bit_length() - 1 for k_, v_ in symev(u_["lhs"]).items()}
                    raise minieval.Unknown("multiplication by %s" % m_)
                if u_.get("k") == "Bin" and u_.get("op") in ("|", "+"):
                    a_, b_ = symev(u_["lhs"]), symev(u_["rhs"])
                    if set(a_) & set(b_):
                        raise minieval.Unknown("the same input byte is merged twice")
                    a_.update(b_)
                    return a_
                raise minieval.Unknown("byte expression %s" % show(u_)[:40])

            def symstep(u_):
                """statement with an effect on a byte-valued variable; returns True when it was one"""
                if u_.get("k") == "Decl":
                    done_ = False
                    for v in u_.get("vars", []):
                        if "n" in v and v.get("init") is not None:
                            try:
                                m_ = symev(v["init"])
                            except minieval.Unknown:
                                continue
                            if m_:
                                sym["l:%s#%s" % (v["n"], v["id"])] = m_
                                done_ = True
                    return done_
                if u_.get("k") == "Bin" and u_.get("op") in ("=", "+=", "|="):
                    lp_ = path(u_.get("lhs"))
                    key_ = ir.path_str(lp_) if lp_ else None
                    if key_ is None:
                        return False
                    if key_ in env:
                        # an accumulator that still holds its initial 0 becomes byte-valued with the first byte merged in
                        if env[key_] != 0:
                            return False
                        sym[key_] = {}
                        try:
                            m_ = symev(u_["rhs"])
                        except minieval.Unknown:
                            del sym[key_]
                            return False
                        if not m_:
                            del sym[key_]
                            return False
                        del env[key_]
                    try:
                        m_ = symev(u_["rhs"])
                    except minieval.Unknown:
                        if key_ in sym:
                            raise
                        return False
                    if u_["op"] == "=":
                        sym[key_] = m_
                    else:
                        cur_ = dict(sym.get(key_, {}))
                        if set(cur_) & set(m_):
                            raise minieval.Unknown("the same input byte is merged twice")
                        cur_.update(m_)
                        sym[key_] = cur_
                    return True
                return False
            rounds = 0
            first = True
            while rounds < 16:
                if not (first and lp["k"] == "Do"):
                    if not minieval.ev(unwrap(lp["cond"]), env, enums):
                        break
                first = False
                for s_ in ir.stmts(lp["body"]):
                    u = unwrap(s_)
                    if u.get("k") in ("If", "Switch", "For", "While", "Do", "Break", "Continue", "Return"):
                        raise minieval.Unknown("control flow inside the assembly loop")
                    if not symstep(u):
                        minieval.step(u, env, enums)
                    moves[0] += len([n for n in ir.walk(s_) if decoder.is_mp_move(n)])
                    for n_ in ir.walk(s_):
                        if n_.get("k") == "Bin" and n_.get("op") == "+=" and path(n_.get("lhs")) == ("this", "m_p"):
                            raise minieval.Unknown("cursor moved by a computed amount inside the loop")
                if lp["k"] == "For" and lp.get("inc") is not None:
                    minieval.step(unwrap(lp["inc"]), env, enums)
                rounds += 1
            # the value returned after the loop
            rets = [n for n in ir.walk(f["body"]) if n.get("k") == "Return" and n.get("e") is not None and path(n["e"]) is not None and
                    ir.path_str(path(n["e"])) in sym]
            got = sym.get(ir.path_str(path(rets[-1]["e"]))) if rets else None
            wantmap = {k_: 8 * (want - 1 - k_) for k_ in range(want)}
            # a loop that indexes from an unmoved cursor (m_p[i]) is followed by one move over all the bytes
            in_loop_moves = moves[0]
            moves[0] += trailing_moves(lp, env)
            if in_loop_moves != 0 and moves[0] != in_loop_moves:
                raise minieval.Unknown("cursor moved both inside and after the loop")
            ok = got == wantmap and moves[0] == want
            shifts = [got.get(k_) for k_ in sorted(got)] if got else []
            run.ob(rule, key, ok, f, lp["l"],
                   "consumes %d byte(s), most significant first (bit positions %s)" % (want, shifts) if ok else
                   "for additional information %d the loop consumes %d byte(s) and places them at bit positions %s; RFC 8949 needs %d byte(s) big-endian %s"
                   % (ai, moves[0], shifts, want, [8 * (want - 1 - k_) for k_ in range(want)]))
        except minieval.Unknown as e:
            run.ob(rule, key, None, f, lp["l"], "cannot evaluate the assembly loop (%s)" % e)
    # readers reject reserved ai
    indef_ok = {"read_unsigned": False, "read_negative": False, "read_bytestring": True, "read_textstring": True,
                "read_array_start": True, "read_map_start": True}
    major_of = {"read_unsigned": "UNSIGNED", "read_negative": "NEGATIVE", "read_bytestring": "BYTE_STRING",
                "read_textstring": "TEXT_STRING", "read_array_start": "ARRAY", "read_map_start": "MAP"}
    cb = {e["n"]: e["v"] for e in facts.enum("CDNS::CborType")["enumerators"]}
    for nm, indef in indef_ok.items():
        g = dfn(facts, nm, rule)
        # locals set by read_cbor_type(cbor_type, ai)
        rc = [c for c in ir.calls_in(g["body"]) if callee_qn(c) == "CDNS::CdnsDecoder::read_cbor_type"]
        if len(rc) != 1:
            run.ob(rule, "%s:head" % nm, None, g, g["line"], "expected one read_cbor_type call")
            continue
        tvar, avar = path_str(path(rc[0]["args"][0])), path_str(path(rc[0]["args"][1]))
        rejected = []
        unknown = False
        for ai in range(32):
            env = {tvar: cb[major_of[nm]], avar: ai}
            r = minieval.run_straightline(ir.stmts(g["body"]), env, facts.enums)
            if r[0] == "throw":
                rejected.append(ai)
            elif r[0] == "unknown":
                unknown = True
        want = [28, 29, 30] + ([] if indef else [31])
        if unknown:
            run.ob(rule, "%s:reserved-ai" % nm, None, g, g["line"], "guard structure not evaluable")
        else:
            ok = rejected == want
            run.ob(rule, "%s:reserved-ai" % nm, ok, g, g["line"],
                   "rejects exactly additional information %s" % want if ok else
                   "rejects additional information %s for a well-typed head; RFC 8949 reserves %s" % (rejected, want))
        # wrong major rejected
        other = [v for k, v in cb.items() if k not in (major_of[nm], "BREAK")]
        bad = []
        for mv in other:
            env = {tvar: mv, avar: 0}
            r = minieval.run_straightline(ir.stmts(g["body"]), env, facts.enums)
            if r[0] != "throw":
                bad.append(mv)
        run.ob(rule, "%s:wrong-major" % nm, not bad, g, g["line"],
               "every other major type is rejected" if not bad else "major types %s are accepted by %s" % (bad, nm))
    run.floor(rule, 15, "argument-width and reserved-ai obligations")


def inplace_head(stmts_):
    """The head byte taken apart where it is read: `read_to_buffer(); T t = m_p[0] & 0xE0; A a = m_p[0] & 0x1F; m_p++;` (what is left
    of a by-value `read_item_head()` after the normalisation).  Returns (type variable, additional-information variable, the
    statements after the cursor moved) or None."""
    def part(init):
        u_ = unwrap_all_casts(init) if init is not None else None
        if isinstance(u_, dict) and u_.get("k") == "Bin" and u_.get("op") == "&" and decoder.is_mp_deref(unwrap_all_casts(u_["lhs"])) is not None:
            return const_value(u_["rhs"])
        return None
    tv = av = None
    last = None
    refilled = False
    for i, s_ in enumerate(stmts_):
        if any(callee_qn(c) == DEC + "::read_to_buffer" for c in ir.calls_in(s_)) and tv is None:
            refilled = True
            continue
        if s_.get("k") == "Decl":
            for v_ in s_.get("vars", []):
                m_ = part(v_.get("init"))
                if m_ == 0xE0 and "n" in v_:
                    tv, last = "l:%s#%s" % (v_["n"], v_["id"]), i
                elif m_ == 0x1F and "n" in v_:
                    av, last = "l:%s#%s" % (v_["n"], v_["id"]), i
        elif tv and av and last is not None and i == last + 1 and any(decoder.is_mp_move(x) for x in ir.walk(s_)):
            return (tv, av, stmts_[i + 1:]) if refilled else None
    return None


def check_heads(run, rule):
    facts = run.facts
    n = 0
    for f in decoder.dec_fns(facts):
        nm = f["qn"].split("::")[-1]
        if not (nm.startswith("read_") or nm == "skip_item") or nm in ("read_to_buffer", "read_cbor_type", "read_int", "read_string", "read_array"):
            continue
        if f.get("access", 0) != 0:
            continue          # private helpers are reached through the public readers checked here
        n += 1
        calls = [callee_name(c) for c in ir.calls_in(f["body"]) if (c.get("callee") or {}).get("cls") == DEC]
        first = calls[0] if calls else None
        ok = first in ("read_cbor_type", "peek_type")
        direct = [d for d in ir.walk(f["body"]) if decoder.is_mp_deref(d) is not None]
        ih = inplace_head(ir.stmts(f["body"])) if not ok else None
        if ih is not None:
            # the same primitive written out (refill check, both halves of the byte, one step): its two reads are the head
            ok, first = True, "the refill check and an in-place split of the byte"
            direct = direct[2:] if len(direct) >= 2 else direct
        run.ob(rule, "%s:head-via-read_cbor_type" % nm, ok, f, f["line"],
               "head byte obtained through %s" % first if ok else "first decoder action is %s" % first, nontrivial=False)
        if direct and nm not in ("skip_item",):
            run.ob(rule, "%s:no-raw-window-access" % nm, False, f, direct[0].get("l", 0), "reads m_p directly instead of through read_cbor_type/read_int")
    run.floor(rule, 9, "public readers")


def callers_pass_cleared_flag(facts):
    """True if every call of read_array_start / read_map_start inside the library hands over a flag that is `false` at the
    call: a local declared `= false` in the innermost loop around the call (or outside any loop the call is not in), with no
    other store.  Then a start function that only ever sets the flag behaves, for the library's own readers, like one that
    also clears it (the decoder's contract towards other callers is C07's business, not the round trip's)."""
    for f in facts.functions.values():
        if not f.get("file", "").startswith(facts.repo + "/src/") or f.get("body") is None:
            continue
        loops_of = {}
        for n, parents in ir.walk_with_parents(f["body"]):
            loops_of[id(n)] = tuple(id(a) for a in parents if a.get("k") in ("While", "Do", "For", "RangeFor"))
        decls = {}
        for n in ir.walk(f["body"]):
            if n.get("k") == "Decl":
                for v in n.get("vars", []):
                    if "n" in v:
                        decls["l:%s#%s" % (v["n"], v["id"])] = (n, v)
        for c in ir.calls_in(f["body"]):
            if callee_qn(c) not in (DEC + "::read_array_start", DEC + "::read_map_start") or f.get("cls") == DEC:
                continue
            ap = path(c["args"][0]) if c.get("args") else None
            if ap and len(ap) == 2 and ap[0] == "this":
                # a member flag: cleared by every constructor's initialiser list, and the function runs only from constructors
                ctors = [g for g in facts.functions.values() if g.get("cls") == f.get("cls") and g.get("ctor") and g.get("body") is not None]
                inits_ok = bool(ctors) and all(any(i.get("member") == ap[1] and const_value(i.get("init")) in (0, False) for i in g.get("inits", []) or [])
                                               for g in ctors)
                callers = [g for g in facts.functions.values() if g.get("body") is not None and
                           any(callee_qn(x) == f["qn"] for x in ir.calls_in(g["body"]))]
                stores = [n for n in ir.walk(f["body"]) if n.get("k") == "Bin" and n.get("op") == "=" and path(n["lhs"]) == ap]
                if inits_ok and callers and all(g.get("ctor") and g.get("cls") == f.get("cls") for g in callers) and not stores:
                    continue
                return False
            if not ap or len(ap) != 1 or ap[0] not in decls:
                return False
            d, v = decls[ap[0]]
            if v.get("init") is None or const_value(v["init"]) not in (0, False):
                return False
            if loops_of.get(id(d), ()) != loops_of.get(id(c), ())[:len(loops_of.get(id(d), ()))] or len(loops_of.get(id(d), ())) != len(loops_of.get(id(c), ())):
                return False
            for n in ir.walk(f["body"]):
                if n.get("k") == "Bin" and n.get("op", "").endswith("=") and n["op"] not in ("==", "!=", "<=", ">=") and path(n["lhs"]) == ap:
                    return False
            uses = [x for x in ir.calls_in(f["body"]) if any(path(a) == ap for a in x.get("args", []))]
            if len(uses) != 1:
                return False
    return True


def check_values(run, rule, flag_contract=True):
    """R07.6 small value-semantics table: read_negative = -1 - n, read_bool table, read_break, read_integer dispatch."""
    facts = run.facts
    tolerate_unset = (not flag_contract) and callers_pass_cleared_flag(facts)
    cb = {e["n"]: e["v"] for e in facts.enum("CDNS::CborType")["enumerators"]}
    rn = dfn(facts, "read_negative", rule)
    rets = [n for n in ir.walk(rn["body"]) if n.get("k") == "Return" and n.get("e") is not None]
    ok = False
    if len(rets) == 1:
        e = unwrap_all_casts(rets[0]["e"])
        if isinstance(e, dict) and e.get("k") == "Bin" and e.get("op") == "-":
            # `-1 - n` is evaluated in uint64_t (n is unsigned): -1 appears as 2^64-1 after the usual conversions
            # (numeric_limits<uint64_t>::max() is the same constant); n is the read_int call or a local that holds its result
            lhs_c = const_value(e["lhs"])
            if lhs_c is None:
                lhs_c = const_value(unwrap_all_casts(e["lhs"]))
            n_ = unwrap_all_casts(e["rhs"])
            if path(n_) is not None and len(path(n_)) == 1:
                d_ = ir.Env(rn["body"]).definition(path(n_))
                n_ = unwrap_all_casts(d_) if d_ is not None else n_
            ok = str(lhs_c) in ("-1", str((1 << 64) - 1)) and callee_qn(n_) == "CDNS::CdnsDecoder::read_int"
    run.ob(rule, "read_negative:-1-n", ok, rn, rn["line"], "negative integer decoded as -1 - n" if ok else "read_negative does not return -1 - read_int(ai)")
    rb = dfn(facts, "read_bool", rule)
    rc = [c for c in ir.calls_in(rb["body"]) if callee_qn(c) == "CDNS::CdnsDecoder::read_cbor_type"]
    if len(rc) == 1:
        tvar, avar = path_str(path(rc[0]["args"][0])), path_str(path(rc[0]["args"][1]))
        table = {}
        for ai in range(32):
            env = {tvar: cb["SIMPLE"], avar: ai}
            r = minieval.run_straightline(ir.stmts(rb["body"]), env, facts.enums)
            if r[0] == "throw":
                table[ai] = "throw"
            elif r[0] == "return":
                try:
                    table[ai] = minieval.ev(unwrap(r[1]["e"]), env, facts.enums)
                except minieval.Unknown:
                    table[ai] = "?"
            else:
                table[ai] = r[0]
        want = {ai: ("throw" if ai not in (20, 21) else (1 if ai == 21 else 0)) for ai in range(32)}
        ok = table == want
        bad = {k: v for k, v in table.items() if want[k] != v}
        run.ob(rule, "read_bool:simple-20/21", ok, rb, rb["line"],
               "simple value 20 -> false, 21 -> true, every other simple value rejected" if ok else "read_bool decodes simple values as %s" % bad)
    else:
        run.ob(rule, "read_bool:simple-20/21", None, rb, rb["line"], "read_cbor_type call not found")
    # array / map start: per (major type, additional information) the count that is returned and what the caller is told about
    # the length being indefinite - the out-parameter has to be stored on every accepting path (a caller may reuse the flag)
    for nm, major in (("read_array_start", "ARRAY"), ("read_map_start", "MAP")):
        fs = dfn(facts, nm, rule)
        rc = [c for c in ir.calls_in(fs["body"]) if callee_qn(c) == "CDNS::CdnsDecoder::read_cbor_type"]
        outs = [p_ for p_ in fs.get("params", []) if p_.get("t") == "bool &"]
        if len(rc) != 1 or len(outs) != 1:
            run.ob(rule, "%s:count/indefinite" % nm, None, fs, fs["line"], "expected one read_cbor_type call and one bool& out-parameter")
            continue
        tvar, avar = path_str(path(rc[0]["args"][0])), path_str(path(rc[0]["args"][1]))
        flag = "p:%s" % outs[0]["n"]
        bad = []
        for tname, tv in cb.items():
            if tname == "BREAK":
                continue
            for ai in range(32):
                env = {tvar: tv, avar: ai}
                r = minieval.run_straightline(ir.stmts(fs["body"]), env, facts.enums)
                if tname != major or 28 <= ai <= 30:
                    want, got = "throw", r[0]
                else:
                    want = ("return", 0, 1) if ai == 31 else ("return", "read_int(%d)" % ai, 0)
                    got = r[0]
                    if r[0] == "return":
                        e = unwrap_all_casts(r[1]["e"])
                        if callee_qn(e) == "CDNS::CdnsDecoder::read_int" and len(e.get("args", [])) == 1:
                            try:
                                val = "read_int(%d)" % minieval.ev(unwrap(e["args"][0]), env, facts.enums)
                            except minieval.Unknown:
                                val = "read_int(?)"
                        else:
                            try:
                                val = minieval.ev(unwrap(r[1]["e"]), env, facts.enums)
                            except minieval.Unknown:
                                val = "?"
                        fl = env.get(flag, 0 if tolerate_unset else "not stored")
                        got = ("return", val, int(fl) if isinstance(fl, (bool, int)) else fl)
                if got != want:
                    bad.append((tname, ai, got, want))
        ok = not bad
        run.ob(rule, "%s:count/indefinite" % nm, ok, fs, fs["line"],
               "ai 0..27 -> read_int(ai) with the flag cleared, 31 -> 0 with the flag set, 28..30 and every other major type rejected" if ok else
               "for major %s, additional information %d: %s, expected %s (indefinite-length flag %s)" % (
                   bad[0][0], bad[0][1], bad[0][2], bad[0][3],
                   "is not stored on this path: a caller reusing its variable keeps the previous value" if "not stored" in repr(bad[0][2]) else "wrong"))
    rk = dfn(facts, "read_break", rule)
    rc = [c for c in ir.calls_in(rk["body"]) if callee_qn(c) == "CDNS::CdnsDecoder::read_cbor_type"]
    ih = inplace_head(ir.stmts(rk["body"])) if len(rc) != 1 else None
    if len(rc) == 1 or ih is not None:
        if ih is not None:
            tvar, avar, rk_stmts = ih
        else:
            tvar, avar, rk_stmts = path_str(path(rc[0]["args"][0])), path_str(path(rc[0]["args"][1])), ir.stmts(rk["body"])
        acc = []
        for tname, tv in cb.items():
            if tname == "BREAK":
                continue
            for ai in range(32):
                r = minieval.run_straightline(rk_stmts, {tvar: tv, avar: ai}, facts.enums)
                if r[0] != "throw":
                    acc.append((tname, ai))
        ok = acc == [("SIMPLE", 31)]
        run.ob(rule, "read_break:only-0xFF", ok, rk, rk["line"], "read_break accepts exactly the stop code" if ok else "read_break accepts %s" % acc[:5])
    ri = dfn(facts, "read_integer", rule)
    sws = [n for n in ir.walk(ri["body"]) if n.get("k") == "Switch"]
    disp = {}
    if len(sws) == 1:
        for labels, stmts_, falls, line in consumption.case_groups(sws[0]):
            calls = [callee_name(c) for s_ in stmts_ for c in ir.calls_in(s_) if (c.get("callee") or {}).get("cls") == DEC]
            throws = any(x.get("k") == "Throw" for s_ in stmts_ for x in ir.walk(s_))
            for l in labels:
                if l[0] == "case":
                    er = ir.enum_ref(l[2])
                    disp[er[1] if er else l[1]] = calls[0] if calls else ("throw" if throws else None)
                else:
                    disp["default"] = "throw" if throws else (calls[0] if calls else None)
    ok = disp.get("UNSIGNED") == "read_unsigned" and disp.get("NEGATIVE") == "read_negative" and disp.get("default") == "throw"
    run.ob(rule, "read_integer:dispatch", ok, ri, ri["line"], "unsigned -> read_unsigned, negative -> read_negative, anything else rejected" if ok else "read_integer dispatch is %s" % disp)
    run.floor(rule, 6, "value-semantics table")


APPENDERS = ("push_back", "append", "operator+=", "reserve", "insert")
REPLACERS = ("assign", "operator=", "clear", "resize", "erase", "swap", "pop_back", "replace")


def check_string_accumulates(run, rule):
    """read_string builds its result from every chunk: the returned string is only ever extended.  A store that replaces its
    content (assign, =, clear ..) drops the chunks read so far - invisible for definite-length strings, which are one run."""
    facts = run.facts
    f = dfn(facts, "read_string", rule)
    rets = [n for n in ir.walk(f["body"]) if n.get("k") == "Return" and n.get("e") is not None]
    targets = set(path(r["e"]) for r in rets if path(r["e"]) is not None)
    if len(targets) != 1:
        run.ob(rule, "read_string:accumulates", None, f, f["line"], "read_string does not return one local string")
        run.floor(rule, 1, "string accumulation")
        return
    tgt = list(targets)[0]
    n = 0
    for c in ir.walk(f["body"]):
        nm = None
        if c.get("k") == "MCall" and path(c.get("recv")) == tgt:
            nm = callee_name(c)
        elif c.get("k") == "OpCall" and c.get("args") and path(c["args"][0]) == tgt and c.get("op") in ("=", "+="):
            nm = "operator" + c["op"]
        if nm is None or nm in ("size", "length", "empty", "capacity", "data", "c_str", "begin", "end", "back", "front"):
            continue
        n += 1
        ok = nm in APPENDERS and not (nm == "insert" and "begin" in show(c))
        run.ob(rule, "read_string:%s#%d" % (nm, n), True if ok else (False if nm in REPLACERS else None), f, c.get("l", 0),
               "the result is extended (%s)" % nm if ok else
               ("%s() replaces what the result held: for an indefinite-length string every chunk after the first overwrites the chunks read "
                "before it" % nm if nm in REPLACERS else "call %s() on the result string is not classified" % nm))
    run.floor(rule, 2, "stores into the result of read_string")


def check_skip_bookkeeping(run, rule):
    """R07.13: the explicit work stack of skip_item (one entry {items left, indefinite?} per open nesting level).  The dispatch
    table (R07.1) says what is pushed for every head; this rule is about when an entry leaves the stack again - what makes the
    function stop after exactly one item:
      * read_break() is called only for a level whose flag says indefinite, and that level is popped in the same branch;
      * a level whose flag says definite is popped when its count is zero, and counted down (once) otherwise;
      * every `continue` in front of the head follows a pop (the loop would not advance otherwise).
    The recursive form has no such bookkeeping (the call stack does it) and gets no obligations here."""
    facts = run.facts
    f = dfn(facts, "skip_item", rule)
    loop = None
    S = None
    for lp in ir.walk(f["body"]):
        if lp.get("k") in ("While", "For", "Do"):
            c = lp.get("cond") if lp.get("cond") is not None else lp.get("c")
            for x in ir.walk(c) if c is not None else []:
                if x.get("k") == "MCall" and callee_name(x) == "empty" and path(x.get("recv")) and path(x["recv"])[0].startswith("l:"):
                    loop, S = lp, path(x["recv"])
            if loop is not None:
                break
    if loop is None:
        run.info["skip_item_form"] = "no explicit work stack"
        return
    sname = path_str(S)
    body = ir.stmts(loop.get("body"))
    head_i = None
    for i, st in enumerate(body):
        if any(callee_qn(c) == "CDNS::CdnsDecoder::read_cbor_type" for c in ir.calls_in(st)) or \
                (st.get("k") == "Decl" and any(decoder.is_mp_deref(unwrap_all_casts(x)) is not None for x in ir.walk(st))):
            head_i = i
            break
    if head_i is None:
        run.ob(rule, "skip_item:bookkeeping", None, f, loop.get("l", f["line"]), "the statement that reads the head was not found in the work loop")
        return
    # field roles: the element type's first member counts, the second says indefinite (as the pushes are read by R07.1)
    et = None
    for d in ir.walk(f["body"]):
        if d.get("k") == "Decl":
            for v in d.get("vars", []):
                if "l:%s#%s" % (v.get("n"), v.get("id")) == S[0]:
                    et = v.get("t") or ""
    rec = None
    for qn, r_ in facts.records.items():
        if et and qn.split("::")[-1] and ("<" + qn.split("::")[-1] + ">" in et.replace("struct ", "") or "<" + qn + ">" in et or qn.split("::")[-1] + "," in et):
            if len(r_.get("fields", [])) == 2:
                rec = r_
    if rec is None:
        run.ob(rule, "skip_item:bookkeeping", None, f, loop.get("l", f["line"]), "element type of the work stack %s (%s) not understood" % (sname, et))
        return
    COUNT, FLAG = rec["fields"][0]["n"], rec["fields"][1]["n"]
    pro = body[:head_i]
    pro_nodes = set(id(x) for st in pro for x in ir.walk(st))
    env = Env(f["body"])

    # the innermost level: `S.back()` or a local reference bound to it
    level = ["%s.back()" % sname]
    for d in ir.walk(loop.get("body")):
        if d.get("k") == "Decl":
            for v in d.get("vars", []):
                i_ = unwrap_all_casts(v.get("init")) if v.get("init") is not None else None
                if isinstance(i_, dict) and i_.get("k") == "MCall" and callee_name(i_) == "back" and path(i_.get("recv")) == S and (v.get("t") or "").endswith("&"):
                    level.append("l:%s#%s" % (v.get("n"), v.get("id")))

    def is_member(txt, member):
        return any(str(txt) == "%s.%s" % (lv, member) for lv in level)

    def has_flag(g, positive):
        for a in conjuncts(g):
            neg = False
            while isinstance(a, tuple) and a and a[0] == "not":
                neg = not neg
                a = a[1]
            if isinstance(a, tuple) and len(a) >= 2 and a[0] in ("call", "nz") and is_member(a[1], FLAG):
                if neg != positive:
                    return True
        return False

    def count_zero(g):
        for a in conjuncts(g):
            if isinstance(a, tuple) and a[0] == "not" and isinstance(a[1], tuple) and a[1][0] == "nz" and is_member(a[1][1], COUNT):
                return True
            if isinstance(a, tuple) and a[0] == "cmp" and a[1] == "==" and "0" in (a[2], a[3]) and (is_member(a[2], COUNT) or is_member(a[3], COUNT)):
                return True
        return False
    lists = [pro] + [ir.stmts(n.get(br)) for st in pro for n in ir.walk(st) if n.get("k") == "If" for br in ("then", "else") if n.get(br) is not None] + \
        [n.get("s", []) for st in pro for n in ir.walk(st) if n.get("k") == "Block"]

    def list_of(node):
        for lst in lists:
            if any(unwrap(y) is node or y is node for y in lst):
                return lst
        return None
    is_pop = lambda y: isinstance(unwrap(y), dict) and unwrap(y).get("k") == "MCall" and callee_name(unwrap(y)) == "pop_back" and path(unwrap(y).get("recv")) == S
    n_rb = n_pop0 = n_dec = 0
    for st, g, loops_ in ir.guarded_statements(f["body"], env):
        if st.get("k") in ("IfCond", "LoopHead", "SwitchHead") or id(st) not in pro_nodes:
            continue
        u = unwrap(st)
        if isinstance(u, dict) and u.get("k") == "MCall" and callee_name(u) == "read_break":
            n_rb += 1
            lst = list_of(u) or []
            ok = has_flag(g, True) and any(is_pop(y) for y in lst)
            run.ob(rule, "skip_item:stop-code-ends-indefinite-level#%d" % n_rb, ok, f, u.get("l", 0),
                   "the stop code is taken for a level marked indefinite, and the level is popped" if ok else
                   ("the stop code is consumed for a level that is %s" % ("not known to be indefinite (the test of `%s` is missing or inverted): a "
                    "definite-length container followed by a break, or an indefinite one, is mis-skipped" % FLAG) if not has_flag(g, True) else
                    "not popped afterwards: the level stays open and the items after the container are skipped as well"))
        if is_pop(st) and has_flag(g, False):
            n_pop0 += 1
            ok = count_zero(g)
            run.ob(rule, "skip_item:definite-level-popped-at-zero#%d" % n_pop0, ok, f, u.get("l", 0),
                   "a definite level is popped when no item of it is left" if ok else
                   "a definite level is popped under %s, not when its count has reached zero" % show_f(g))
        if (isinstance(u, dict) and u.get("k") == "Un" and u.get("op") in ("pre--", "post--") and is_member(show(u.get("e")), COUNT)) or \
                (isinstance(u, dict) and u.get("k") == "Bin" and u.get("op") == "-=" and is_member(show(u.get("lhs")), COUNT)):
            n_dec += 1
            ok = has_flag(g, False) and not count_zero(g)
            run.ob(rule, "skip_item:item-counted#%d" % n_dec, ok, f, u.get("l", 0),
                   "one item is counted off the definite level the next head belongs to" if ok else
                   "the count is decremented under %s: it must happen for a definite level (`!%s`) that still has items" % (show_f(g), FLAG))
        if st.get("k") == "Continue":
            lst = list_of(st) or []
            i_ = [j for j, y in enumerate(lst) if y is st]
            ok = bool(i_) and any(is_pop(y) for y in lst[:i_[0]])
            run.ob(rule, "skip_item:continue-after-pop@%s" % st.get("l", 0), ok, f, st.get("l", 0),
                   "the iteration is restarted after a level was removed" if ok else
                   "`continue` without a pop in front of it: the same level is looked at again and again, or a finished level is never removed")
    # a different discipline (the count written somewhere else in the loop, the stop code looked for after the dispatch ..)
    # is not judged by this rule
    other_count_writes = [x for x in ir.walk(loop.get("body")) if id(x) not in pro_nodes and (
        (x.get("k") == "Un" and x.get("op") in ("pre--", "post--", "pre++", "post++") and show(x.get("e")).endswith("." + COUNT)) or
        (x.get("k") == "Bin" and x.get("op") in ("=", "-=", "+=") and show(x.get("lhs")).endswith("." + COUNT)))]
    other_rb = [c for c in ir.calls_in(loop.get("body")) if callee_name(c) == "read_break" and id(c) not in pro_nodes]
    other_pop = [c for c in ir.calls_in(loop.get("body")) if callee_name(c) == "pop_back" and id(c) not in pro_nodes]
    complete = n_rb >= 1 and n_pop0 >= 1 and n_dec >= 1
    verdict = True if complete else None if ((n_dec == 0 and other_count_writes) or (n_rb == 0 and other_rb) or (n_pop0 == 0 and other_pop)) else False
    run.ob(rule, "skip_item:levels-leave-the-stack", verdict, f, loop.get("l", f["line"]),
           "the work loop ends indefinite levels at the stop code, definite ones at count zero, and counts items" if (n_rb and n_pop0 and n_dec) else
           "in front of the head the work loop has %d read_break() for indefinite levels, %d pop at count zero, %d count-down: each is needed for the "
           "function to stop after exactly one item" % (n_rb, n_pop0, n_dec))
    run.info["skip_item_form"] = "explicit work stack %s {%s, %s}" % (sname, COUNT, FLAG)


def check_head_consumed(run, rule):
    """R07.14: read_cbor_type(type, ai) takes the head apart and consumes it: on every returning path the major type is
    `m_p[0] & 0xE0`, the additional information `m_p[0] & 0x1F`, both read before the cursor moves, and the cursor moves
    exactly once, by one byte.  (Where the head is taken apart in place instead, R07.5 / the tabulations own it.)"""
    facts = run.facts
    fs = [f for f in facts.fns("CDNS::CdnsDecoder::read_cbor_type") if f.get("body") is not None and len(f.get("params", [])) == 2]
    if not fs:
        run.info["read_cbor_type"] = "not a two-out-parameter function on this tree"
        return
    f = fs[0]
    from . import C05 as _C05
    pths = _C05._paths(ir.stmts(f["body"]))
    if pths is None:
        run.ob(rule, "read_cbor_type:consumes-the-head", None, f, f["line"], "read_cbor_type is not loop-free")
        return
    tp, ap = "p:%s" % f["params"][0]["n"], "p:%s" % f["params"][1]["n"]
    n = 0
    for pth in pths:
        if pth and pth[-1][0] == "throw":
            continue
        n += 1
        seq = []
        for ev in pth:
            if ev[0] not in ("stmt", "return"):
                continue
            for x in ir.walk(ev[1]):
                if decoder.is_mp_move(x):
                    step = 1 if (x.get("k") == "Un" and x.get("op") in ("post++", "pre++")) or (x.get("k") == "Bin" and x.get("op") == "+=" and const_value(x.get("rhs")) == 1) else None
                    seq.append(("move", step, x.get("l", 0)))
                if x.get("k") == "Bin" and x.get("op") == "=" and path(x.get("lhs")) in ((tp,), (ap,)):
                    mask = off = None
                    for y in ir.walk(x.get("rhs")):
                        if y.get("k") == "Bin" and y.get("op") == "&":
                            for a_, b_ in ((y["lhs"], y["rhs"]), (y["rhs"], y["lhs"])):
                                d_ = decoder.is_mp_deref(unwrap_all_casts(a_))
                                if d_ is not None and const_value(b_) is not None:
                                    mask, off = const_value(b_), d_[1]
                    seq.append(("load", path(x["lhs"])[0], mask, off, x.get("l", 0)))
        moves = [e for e in seq if e[0] == "move"]
        loads = {e[1]: e for e in seq if e[0] == "load"}
        other_calls = [c for ev in pth if ev[0] in ("stmt", "return") for c in ir.calls_in(ev[1])
                       if (c.get("callee") or {}).get("cls") == DEC and callee_name(c) != "read_to_buffer"]
        if other_calls or any(e[2] is None for e in loads.values()):
            # the head comes through a local or another member function (read_byte(), a head struct): the direct form this
            # rule reads is not there; the tabulations of the readers (R07.4, R07.6) still see the expanded code
            run.info["read_cbor_type"] = "head not taken apart directly from m_p[0] in read_cbor_type: R07.14 not applied"
            continue
        first_move = seq.index(moves[0]) if moves else len(seq)
        problems = []
        if len(moves) != 1 or moves[0][1] != 1:
            problems.append("the cursor moves %s" % ("%d times" % len(moves) if len(moves) != 1 else "by something other than one byte"))
        for prm, want, what in ((tp, 0xE0, "major type"), (ap, 0x1F, "additional information")):
            e = loads.get(prm)
            if e is None:
                problems.append("the %s is not stored" % what)
            elif e[2] != want or e[3] != 0:
                problems.append("the %s is taken as m_p[%s] & 0x%X instead of m_p[0] & 0x%X" % (what, e[3], e[2] if e[2] is not None else 0, want))
            elif seq.index(e) > first_move:
                problems.append("the %s is read after the cursor moved (from the byte after the head)" % what)
        run.ob(rule, "read_cbor_type:consumes-the-head#%d" % n, not problems, f, f["line"],
               "type = m_p[0] & 0xE0, ai = m_p[0] & 0x1F, then the cursor moves on by one" if not problems else "; ".join(problems))


def check_string_bytes_kept(run, rule):
    """read_string keeps every byte it takes: a statement list that moves the cursor (`m_p++`, `m_p += n`) also appends the
    bytes under it to a string first (`push_back(m_p[0])`, `append(m_p, n)` ..).  Looked at in read_string and in the private
    helpers of the decoder it hands its result to."""
    facts = run.facts
    f0 = dfn(facts, "read_string", rule)
    fns = [f0]
    for c in ir.calls_in(f0["body"]):
        cal = c.get("callee") or {}
        if cal.get("cls") == DEC and cal.get("access") not in (0, None) and any("basic_string" in (t or "") and t.rstrip().endswith("&") and not t.startswith("const") for t in cal.get("sig", [])):
            fns += [g for g in facts.fns(cal.get("qn")) if g.get("body") is not None and g not in fns]
    n = 0
    for f in fns:
        for b in ir.walk(f["body"]):
            lst = b.get("s") if b.get("k") == "Block" else None
            if not lst:
                continue
            for i, st in enumerate(lst):
                u = unwrap(st)
                if not (isinstance(u, dict) and decoder.is_mp_move(u)):
                    continue
                n += 1

                def appends(y):
                    for x in ir.walk(y):
                        if x.get("k") == "MCall" and callee_name(x) in ("push_back", "append", "insert", "assign") and "basic_string" in ((x.get("callee") or {}).get("cls") or ""):
                            if any(decoder.is_mp_deref(z) is not None or path(z) == ("this", "m_p") for a in x.get("args", []) for z in ir.walk(a)):
                                return True
                        if x.get("k") == "OpCall" and x.get("op") == "+=" and "basic_string" in ((x.get("callee") or {}).get("cls") or ""):
                            if any(decoder.is_mp_deref(z) is not None for a in x.get("args", [])[1:] for z in ir.walk(a)):
                                return True
                    return False
                before = any(appends(y) for y in lst[:i])
                if before:
                    ok = True
                else:
                    ok = None if appends(f["body"]) and any(appends(y) for y in lst[i + 1:]) else False
                run.ob(rule, "%s:bytes-kept@%s" % (f["qn"].split("::")[-1], u.get("l", 0)), ok, f, u.get("l", 0),
                       "the bytes the cursor passes were appended to the result first" if ok else
                       "the cursor moves past input bytes that no statement of this list appended to the result: part of the string's content is dropped" if ok is False else
                       "the append follows the cursor move in this list: not decided")
    run.info["string_cursor_moves"] = n


def check(run):
    from . import C05
    C05.check_window_state(run, "R07.10")       # a stale peek answers for the wrong item
    from .. import derived as _derived
    _derived.report(run, "R07.12", ["CDNS::CdnsDecoder", "CDNS::CdnsReader"])
    C05.check_typestate(run, "R07.11")          # bytes are taken from inside the window only: an item that straddles a refill decodes like any other
    check_string_accumulates(run, "R07.9")
    check_string_bytes_kept(run, "R07.9")
    check_skip(run, "R07.1", "R07.3")
    check_skip_bookkeeping(run, "R07.13")
    # the level stack of skip_item: a reference to the innermost level must not be used after the stack grew (the count of
    # the enclosing level would be updated in freed memory and one item too many skipped)
    from . import C03
    C03.check_invalidation(run, "R07.8", run.facts, only_cls=DEC, floor=0)
    check_stop_agreement(run, "R07.2")
    check_read_int(run, "R07.4")
    check_heads(run, "R07.5")
    check_head_consumed(run, "R07.14")
    check_values(run, "R07.6")
    from .. import ranges
    for f in decoder.dec_fns(run.facts):
        seen = {}
        for node, ok, txt in ranges.check_function(f, run.facts.enums):
            base = "%s:%s" % (f["qn"].split("::")[-1], show(node)[:50])
            seen[base] = seen.get(base, 0) + 1
            run.ob("R07.7", base if seen[base] == 1 else "%s#%d" % (base, seen[base]), ok, f, node.get("l", 0), txt)
