"""Resolved call graph over the extracted functions (virtual calls expand to overriders)."""
from . import ir


class CallGraph:
    def __init__(self, facts):
        self.facts = facts
        self.by_sig = {}
        for f in facts.functions.values():
            self.by_sig.setdefault((f["qn"], tuple(f["sig"]), f.get("targs", "")), []).append(f)
            self.by_sig.setdefault((f["qn"], tuple(f["sig"])), []).append(f)
        # overriders: base method key -> [derived fn]
        self.overriders = {}
        for r in facts.records.values():
            for m in r.get("methods", []):
                for o in m.get("overrides", []):
                    self.overriders.setdefault(o, []).append(m["key"])
        self._edges = {}

    def resolve(self, call):
        cal = call.get("callee") or {}
        q = cal.get("qn")
        if not q:
            return []
        c = self.by_sig.get((q, tuple(cal.get("sig", [])), cal.get("targs", "")))
        if c is None:
            c = self.by_sig.get((q, tuple(cal.get("sig", []))), [])
        out = list(c)
        if call.get("virt") or cal.get("virtual"):
            # expand to overriders (transitively)
            keys = set()
            work = []
            # base method key as produced by fnKey: qn(sig,)const?
            base_keys = [f["key"] for f in c]
            if not base_keys:
                base_keys = ["%s(%s)" % (q, "".join(s + "," for s in cal.get("sig", [])))]
            work = list(base_keys)
            while work:
                k = work.pop()
                for d in self.overriders.get(k, []):
                    if d not in keys:
                        keys.add(d)
                        work.append(d)
            for k in keys:
                f = self.facts.functions.get(k)
                if f is not None and f not in out:
                    out.append(f)
        return out

    def callees(self, fn):
        k = fn["key"]
        if k in self._edges:
            return self._edges[k]
        out = {}
        for c in ir.calls_in(fn["body"]):
            for g in self.resolve(c):
                out[g["key"]] = g
        # constructor member/base initialisers
        for i in fn.get("inits", []) or []:
            for c in ir.calls_in(i.get("init")):
                for g in self.resolve(c):
                    out[g["key"]] = g
        self._edges[k] = out
        return out

    def reachable(self, entries):
        seen = {}
        work = list(entries)
        while work:
            f = work.pop()
            if f["key"] in seen:
                continue
            seen[f["key"]] = f
            work.extend(self.callees(f).values())
        return seen

    def sccs(self, nodes):
        """Tarjan over the sub-graph induced by nodes (dict key->fn). Returns list of lists of keys."""
        index = {}
        low = {}
        stack = []
        on = set()
        out = []
        counter = [0]
        import sys
        sys.setrecursionlimit(10000)

        def strong(v):
            index[v] = low[v] = counter[0]
            counter[0] += 1
            stack.append(v)
            on.add(v)
            for w in self.callees(nodes[v]):
                if w not in nodes:
                    continue
                if w not in index:
                    strong(w)
                    low[v] = min(low[v], low[w])
                elif w in on:
                    low[v] = min(low[v], index[w])
            if low[v] == index[v]:
                comp = []
                while True:
                    w = stack.pop()
                    on.discard(w)
                    comp.append(w)
                    if w == v:
                        break
                out.append(comp)

        for v in nodes:
            if v not in index:
                strong(v)
        return out
