#include "src/cdns.h"
#include <sstream>
#include <iostream>
int main(){
  using namespace CDNS;
  // QueryResponse map {2: 53, 0xFFFFFFFFFFFFFFFF: "evil"}: unknown positive key 2^64-1 must be ignored
  std::string in("\xa2\x02\x18\x35\x1b\xff\xff\xff\xff\xff\xff\xff\xff\x64" "evil", 18);
  std::istringstream is(in); CdnsDecoder d(is);
  QueryResponse qr; qr.read(d);
  std::cout << "client_port=" << *qr.client_port << " asn=" << (qr.asn ? *qr.asn : std::string("<absent>")) << "\n";
  return qr.asn ? 1 : 0;
}
