#!/usr/bin/env python3
"""Regenerates /verif/MANIFEST.json from the rule modules present and NOT_APPLICABLE below."""
import glob, importlib, json, os, sys
ROOT = os.path.dirname(os.path.dirname(os.path.abspath(__file__)))
sys.path.insert(0, ROOT)
sys.dont_write_bytecode = True
props = [json.loads(l) for l in open(os.path.join(ROOT, "properties.jsonl"))]
TECHNIQUE = {
 "C01": "static: AST table extraction + sibling cross-check (writer vs reader vs RFC 8618 tables), inverse-mapping check of add_*/read_generic_*, per-iteration freshness of records built in loops, interval + cell-wise analysis of the codec primitives",
 "C02": "static: symbolic count identities over guard atoms (emission grammar of every serialiser), callee summaries at use sites, guard/ordering typestate of CdnsExporter",
 "C03": "static: decoder-window typestate, guard dominance of subscripts and cursor moves, taint-to-allocation, call-graph SCCs (devirtualised through owning members), interval analysis over everything the tools reach, reference/iterator invalidation by container growth, cursor-progress rule, exception-discipline rules",
 "C04": "static: control dependence (guard dominance) of hint-bit tests over member assignments and block-table insertions",
 "C05": "static: Fresh/Stale typestate on the decoder window, abstract interpretation of the refill (m_p ? m_end), handler search over the read call graph, no input access between a decoded block and its return (call-graph reachability of the refill)",
 "C06": "static: cell-wise partial evaluation of write_int (value and free-space partitions), flush-threshold vs argument-range comparison, affine relation analysis of the string copy (path exploration with case splits; ghost byte counter with loop invariants), structural buffer discipline",
 "C07": "static: finite-domain tabulation of skip_item (8 major types x 7 classes of additional information) and of read_int (byte -> bit-position maps), caller/callee belief agreement on the stop code, interval analysis, reference invalidation on the level stack",
 "C08": "static: sibling cross-check of all map/array readers against one consumption discipline on the structured CFG",
 "C09": "static: writer/reader table agreement + RFC 8618 tables + reset-state dataflow + width rule + taint rule (no reader-only value-dependent rejection)",
 "C10": "static: additive-flow dataflow of returned byte counts (carriers, drains, per-return coverage, overwrites), primitive return/stored-bytes agreement, who-may-call",
 "C11": "static: type/record facts (unique object representations, layout), hash-vs-equality member sets incl. presence of optional members, structural rules on BlockTable and on what clear() resets",
 "C12": "static: structural rules and guard normal forms over the buffering functions",
 "C13": "static: must-precede / who-may-call ordering over the rotate path (incl. explicitly instantiated templates)",
 "C14": "static: loop/ordering structure of the compressed writers, finite tabulation of the accepted return codes, API rule on partial compressor resets, parameter dependence of stack array bounds",
 "C15": "static: ordering invariant (must-precede) + destruction order derived from record facts and destructor bodies, path-expression equality of the opened and the renamed name (cached path members expanded under a no-output-open condition)",
 "C16": "static: error-discipline rules over the call graph from rotate_output (swallowing handlers, unchecked OS/stream results, reachability of the delegate on exceptional exits), rotation re-initialises the state that frames the next output",
 "C17": "static: interval analysis (incl. lossy implicit conversions on the way to a comparison), finite order-abstraction table of the comparison operators, must-precede rules",
 "C18": "static: guard dominance of associative operator[] reads, ordering, unconditional remap, first-readable reference and per-iteration try isolation in the tool mains",
 "C19": "static: ownership/borrowing rule over special-member facts (rebuild or copy-and-swap of every member), member completeness of copy operations",
 "C20": "static: effect analysis (static-storage declarations, external-callee allow/deny list, pointer-origin rule, released descriptors are not kept)",
}
NOT_APPLICABLE = {}
UNDER_CONSTRUCTION = "check not built yet in this session (planned, see DESIGN.md section 5); not claimed until its rules run clean on the unchanged tree"
checks = []
na = []
for p in props:
    pid = p["id"]
    path = os.path.join(ROOT, "cdnsverif", "rules", pid + ".py")
    if os.path.exists(path) and pid not in NOT_APPLICABLE:
        mod = importlib.import_module("cdnsverif.rules." + pid)
        M = mod.META
        checks.append({
            "property_id": pid,
            "quick_cmd": "./check %s --tier quick" % pid,
            "thorough_cmd": "./check %s --tier thorough" % pid,
            "evidence_file": "evidence/%s.json" % pid,
            "replay_cmd_template": "./check %s --replay {path}" % pid,
            "engine": "cdnsverif",
            "level_claimed": {"category": M.get("level", "other"), "text": M["explanation"], "design_ref": "DESIGN.md section 5, " + pid},
            "level_note": "Trusted base: " + "; ".join(M.get("trusted_base", [])) + ". Assumes: " + ("; ".join(M.get("assumptions", [])) or "nothing beyond the trusted base") +
                          ". Decides the structural / necessary-condition clauses named in DESIGN.md, not the run-time residue listed there under 'Not decided'.",
            "technique": TECHNIQUE.get(pid, "static analysis over the clang AST") + " (custom libTooling extractor + rule engine)",
        })
    else:
        na.append({"property_id": pid, "reason": NOT_APPLICABLE.get(pid, UNDER_CONSTRUCTION)})
man = {
    "version": 1,
    "setup_cmd": "sh tool/build.sh",
    "hooks": {"guard": "CZ_NIC_C_DNS_VERIF", "enable": "none: the analysis reads the unmodified AST; no hooks are compiled into /repo",
              "baseline_off_cmd": "cmake -S /repo -B /repo/_build -G Ninja -DBUILD_TESTS=ON -DBUILD_DOC=OFF >/dev/null && cmake --build /repo/_build && ctest --test-dir /repo/_build -j8 --timeout 900",
              "source_commits": [], "add_only": True},
    "engines": [{"name": "cdnsverif", "path": "cdnsverif/", "serves_properties": [c["property_id"] for c in checks],
                 "kind_free_text": "clang-14 libTooling extractor (tool/cdns-facts.cc) producing a JSON mini-IR of the type-checked program; flattening of intermediate base classes; IR normalisation (inlining of helpers/lambdas/forwarders/tail delegation, forward substitution, conditional lifting, algorithm loops, *p++ splitting, local memo elimination in both spellings, scope guards written out on the normal and the exceptional path, scalar replacement of helper objects, flow-sensitive folding of local flags with jump threading, store splitting, build-aside-and-commit forwarding, aggregate projection); class-level analyses of derived members (eager / lazy / keyed caches verified and rewritten away, stale ones reported) and of validated string caches with controls checked on every run; positive controls for zero-expected rules (tu/rule_controls.cpp); python3 rule engine deciding per-property obligations; exit 0/1/2"}],
    "checks": checks,
    "not_applicable": na,
    "notes": "Static analysis only. exit 2 = ANALYSIS-BROKEN (never a VIOLATION line). known_findings.json lists genuine defects; fix: commits in /repo are recorded there as fixed.",
}
json.dump(man, open(os.path.join(ROOT, "MANIFEST.json"), "w"), indent=1)
print("MANIFEST.json: %d checks, %d not_applicable" % (len(checks), len(na)))
