"""Cell-wise partial evaluation of an encoder primitive.

The argument `value` ranges over an interval (a cell), `m_avail` over an interval too; everything that depends only on
decided comparisons is computed concretely (locals, loop counters, switch operands), everything else stays a small
expression over the symbols value / major.  A comparison of `value` with a constant that the current cell does not decide
splits the cell; a comparison of `m_avail` with a constant forks the path.  The result is, for every cell of the
discovered partition, the list of paths (m_avail range, bytes stored through m_p, value returned).

This is abstract interpretation over a finite partition (no solver, no execution of the program): control flow is
followed only where the abstract state decides it, anything else raises Unknown and the caller reports *unrecognised*."""
from . import ir, minieval
from .ir import unwrap, path, path_str, const_value, callee_qn, callee_name

U64 = (1 << 64) - 1


class Unknown(Exception):
    pass


class Split(Exception):
    def __init__(self, at):
        self.at = at          # first value of the upper part


class Fork(Exception):
    def __init__(self, at):
        self.at = at          # m_avail threshold: [lo, at-1] and [at, hi]


def C(v):
    return ("c", int(v))


def is_c(a):
    return a[0] == "c"


class State:
    def __init__(self, lo, hi, alo, ahi):
        self.lo, self.hi = lo, hi          # value cell
        self.alo, self.ahi = alo, ahi      # m_avail range
        self.locals = {}
        self.stores = {}
        self.steps = 0


class Evaluator:
    def __init__(self, facts, value_key, major_key, enums):
        self.facts = facts
        self.value_key = value_key
        self.major_key = major_key
        self.enums = enums

    # ---------------------------------------------------------------- expressions
    def ev(self, e, st, depth=0):
        e0 = e
        e = unwrap(e)
        if not isinstance(e, dict) or depth > 60:
            raise Unknown("expression")
        cv = const_value(e0)
        if cv is None:
            cv = const_value(e)
        if cv is not None and not isinstance(cv, str):
            return C(cv)
        if isinstance(cv, str) and cv.isdigit():
            return C(int(cv))
        k = e.get("k")
        p = path(e)
        if p is not None and k in ("Ref", "Member"):
            key = path_str(p)
            if key == self.value_key:
                if key in st.locals:
                    return st.locals[key]          # the parameter was shifted / reassigned on this path
                if st.lo == st.hi:
                    return C(st.lo)
                return ("sym", "value")
            if key == self.major_key:
                return ("sym", "major")
            if key == "this.m_avail":
                if st.alo == st.ahi:
                    return C(st.alo)
                return ("sym", "avail")
            if key == "this.m_p":
                return ("ptr", 0)           # the cursor as a pointer value: offset 0 from itself
            if key in st.locals:
                return st.locals[key]
            raise Unknown("value of %s" % key)
        if k == "Cast":
            a = self.ev(e["e"], st, depth + 1)
            t = (e.get("t") or "").replace("const ", "")
            if is_c(a):
                if t in minieval.BITS or (self.enums and t in self.enums):
                    return C(minieval.wrap(a[1], t, self.enums))
                return a
            return ("cast", t, a)
        if k == "Un":
            a = self.ev(e["e"], st, depth + 1)
            if is_c(a):
                op = e["op"]
                t = (e.get("t") or "").replace("const ", "")
                v = {"-": -a[1], "~": ~a[1], "+": a[1], "!": 0 if a[1] else 1}.get(op)
                if v is None:
                    raise Unknown("unary %s" % op)
                return C(minieval.wrap(v, t, self.enums) if t in minieval.BITS else v)
            return ("un", e["op"], a)
        if k == "Bin":
            op = e["op"]
            if op in ("==", "!=", "<", ">", "<=", ">=", "&&", "||"):
                r = self.decide(e, st)
                return C(1 if r else 0)
            a, b = self.ev(e["lhs"], st, depth + 1), self.ev(e["rhs"], st, depth + 1)
            t = (e.get("t") or "").replace("const ", "")
            # pointer arithmetic on the cursor: m_p + n, (m_p + n) - k
            if isinstance(a, tuple) and a and a[0] == "ptr" and is_c(b) and op in ("+", "-"):
                return ("ptr", a[1] + (b[1] if op == "+" else -b[1]))
            if isinstance(b, tuple) and b and b[0] == "ptr" and is_c(a) and op == "+":
                return ("ptr", b[1] + a[1])
            if is_c(a) and is_c(b):
                fake = {"k": "Bin", "op": op, "t": t, "lhs": {"k": "Lit", "v": a[1]}, "rhs": {"k": "Lit", "v": b[1]}}
                try:
                    return C(minieval.ev(fake, {}, self.enums))
                except minieval.Unknown as ex:
                    raise Unknown(str(ex))
            return ("bin", op, a, b)
        if k == "Cond":
            return self.ev(e["a"] if self.decide(e["c"], st) else e["b"], st, depth + 1)
        if k == "Call":
            # an in-repo helper without side effects: evaluate its body on the abstract arguments
            cal = e.get("callee") or {}
            tgt = None
            for f in self.facts.fns(cal.get("qn")) if cal.get("inrepo") else []:
                if f.get("sig") == cal.get("sig"):
                    tgt = f
            if tgt is None or tgt.get("body") is None or cal.get("cls"):
                raise Unknown("call %s" % ir.show(e)[:40])
            sub = State(st.lo, st.hi, st.alo, st.ahi)
            sub.steps = st.steps
            inner = Evaluator(self.facts, None, None, self.enums)
            for prm, a in zip(tgt["params"], e.get("args", [])):
                av = self.ev(a, st, depth + 1)
                if av == ("sym", "value"):
                    inner.value_key = "p:%s" % prm["n"]
                else:
                    sub.locals["p:%s" % prm["n"]] = av
            r = inner.run(ir.stmts(tgt["body"]), sub)
            if r[0] != "return" or r[1] is None:
                raise Unknown("helper %s does not return a value on this path" % cal.get("qn"))
            return r[1]
        raise Unknown("%s %s" % (k, ir.show(e)[:40]))

    # ---------------------------------------------------------------- conditions
    def decide(self, e, st):
        u = unwrap(e)
        if not isinstance(u, dict):
            raise Unknown("condition")
        k = u.get("k")
        if k == "Un" and u.get("op") == "!":
            return not self.decide(u["e"], st)
        if k == "Bin" and u.get("op") == "&&":
            return self.decide(u["lhs"], st) and self.decide(u["rhs"], st)
        if k == "Bin" and u.get("op") == "||":
            return self.decide(u["lhs"], st) or self.decide(u["rhs"], st)
        if k == "Cast" and u.get("t") == "bool":
            a = self.ev(u["e"], st)
            if is_c(a):
                return a[1] != 0
            raise Unknown("truth of %r" % (a,))
        if k == "Bin" and u.get("op") in ("==", "!=", "<", ">", "<=", ">="):
            a, b = self.ev(u["lhs"], st), self.ev(u["rhs"], st)
            op = u["op"]
            if is_c(a) and is_c(b):
                return {"==": a[1] == b[1], "!=": a[1] != b[1], "<": a[1] < b[1], "<=": a[1] <= b[1], ">": a[1] > b[1], ">=": a[1] >= b[1]}[op]
            flip = {"<": ">", ">": "<", "<=": ">=", ">=": "<=", "==": "==", "!=": "!="}
            if is_c(a) and not is_c(b):
                a, b, op = b, a, flip[op]
            # strip value-preserving casts around the symbol
            s = a
            while s[0] == "cast" and s[1] in ("unsigned long", "unsigned long long", "long", "unsigned int", "int"):
                s = s[2]
            if is_c(b) and s in (("sym", "value"), ("sym", "avail")):
                lo, hi = (st.lo, st.hi) if s[1] == "value" else (st.alo, st.ahi)
                c = b[1]
                # truth on the whole interval, or the point at which it flips
                def truth(v):
                    return {"==": v == c, "!=": v != c, "<": v < c, "<=": v <= c, ">": v > c, ">=": v >= c}[op]
                tl, th = truth(lo), truth(hi)
                flip_at = None
                if op in ("<", ">="):
                    flip_at = c
                elif op in ("<=", ">"):
                    flip_at = c + 1
                elif op in ("==", "!="):
                    if lo <= c <= hi and lo != hi:
                        flip_at = c if c > lo else c + 1
                if flip_at is not None and lo < flip_at <= hi:
                    raise (Split if s[1] == "value" else Fork)(flip_at)
                if tl == th:
                    return tl
                raise Unknown("comparison not decided on the cell")
            raise Unknown("comparison %s" % ir.show(u)[:60])
        a = self.ev(u, st)
        if is_c(a):
            return a[1] != 0
        raise Unknown("condition %s" % ir.show(u)[:60])

    # ---------------------------------------------------------------- statements
    def run(self, stmts, st):
        """('return', value|None) | ('break',) | ('continue',) | ('end',)"""
        for s in stmts:
            st.steps += 1
            if st.steps > 4000:
                raise Unknown("too many steps")
            u = unwrap(s)
            if not isinstance(u, dict):
                continue
            k = u.get("k")
            if k == "Block":
                r = self.run(u.get("s", []), st)
                if r[0] != "end":
                    return r
            elif k in ("Null",):
                continue
            elif k == "Decl":
                for v in u.get("vars", []):
                    if "n" in v:
                        key = "l:%s#%s" % (v["n"], v["id"])
                        if v.get("init") is not None:
                            st.locals[key] = self.ev(v["init"], st)
                        else:
                            st.locals[key] = ("undef",)
            elif k == "If":
                if self.decide(u["cond"], st):
                    r = self.run(ir.stmts(u.get("then")), st)
                elif u.get("else") is not None:
                    r = self.run(ir.stmts(u["else"]), st)
                else:
                    r = ("end",)
                if r[0] != "end":
                    return r
            elif k == "Return":
                return ("return", self.ev(u["e"], st) if u.get("e") is not None else None)
            elif k == "Break":
                return ("break",)
            elif k == "Continue":
                return ("continue",)
            elif k in ("For", "While", "Do"):
                if k == "For" and u.get("init") is not None:
                    r = self.run([u["init"]], st)
                first = True
                rounds = 0
                while True:
                    if not (k == "Do" and first):
                        if u.get("cond") is not None and not self.decide(u["cond"], st):
                            break
                    first = False
                    rounds += 1
                    if rounds > 64:
                        raise Unknown("loop does not terminate within 64 rounds")
                    r = self.run(ir.stmts(u.get("body")), st)
                    if r[0] == "return":
                        return r
                    if r[0] == "break":
                        break
                    if k == "For" and u.get("inc") is not None:
                        self.run([u["inc"]], st)
                    if k == "Do" and u.get("cond") is not None and not self.decide(u["cond"], st):
                        break
            elif k == "Switch":
                on = self.ev(u["cond"], st)
                if not is_c(on):
                    raise Unknown("switch on a value that is not decided")
                body = ir.stmts(u.get("body"))
                start = None
                default = None
                for i, x in enumerate(body):
                    y = x
                    while isinstance(y, dict) and y.get("k") in ("Case", "Default"):
                        if y["k"] == "Case" and const_value(y.get("val")) == on[1] and start is None:
                            start = i
                        if y["k"] == "Default" and default is None:
                            default = i
                        y = y.get("sub")
                if start is None:
                    start = default
                if start is not None:
                    seq = []
                    for x in body[start:]:
                        y = x
                        while isinstance(y, dict) and y.get("k") in ("Case", "Default"):
                            y = y.get("sub")
                        if y is not None:
                            seq.append(y)
                    r = self.run(seq, st)
                    if r[0] in ("return", "continue"):
                        return r
            elif k == "Bin" and u.get("op", "").endswith("=") and u["op"] not in ("==", "!=", "<=", ">="):
                self.assign(u, st)
            elif k == "Un" and u.get("op") in ("pre++", "post++", "pre--", "post--"):
                p = path(u.get("e"))
                key = path_str(p) if p else None
                if key not in st.locals or not is_c(st.locals[key]):
                    raise Unknown("update of %s" % key)
                st.locals[key] = C(st.locals[key][1] + (1 if "++" in u["op"] else -1))
            elif k in ("Call", "MCall", "OpCall"):
                raise Unknown("call %s" % ir.show(u)[:50])
            else:
                raise Unknown("statement %s" % k)
        return ("end",)

    def assign(self, u, st):
        lhs = unwrap(u["lhs"])
        op = u["op"]
        # store through the cursor
        base_off = None
        if isinstance(lhs, dict) and lhs.get("k") == "Index":
            try:
                bv = self.ev(lhs.get("base"), st)
            except Unknown:
                bv = None
            if isinstance(bv, tuple) and bv and bv[0] == "ptr":
                base_off = bv[1]            # m_p itself, or a local pointer computed from it (`last = m_p + n; last[-1] = ..`)
        if base_off is not None:
            idx = self.ev(lhs["idx"], st)
            if not is_c(idx) or op != "=":
                raise Unknown("store at an index that is not decided")
            idx = C(idx[1] + base_off)
            if idx[1] < 0:
                raise Unknown("store in front of the cursor")
            if idx[1] in st.stores:
                raise Unknown("m_p[%d] stored twice" % idx[1])
            st.stores[idx[1]] = self.ev(u["rhs"], st)
            return
        p = path(lhs)
        key = path_str(p) if p else None
        if key is None or not (key.startswith("l:") or key.startswith("p:")):
            raise Unknown("assignment to %s" % ir.show(lhs)[:40])
        r = self.ev(u["rhs"], st)
        if op == "=":
            t = (lhs.get("t") or "").replace("const ", "")
            if is_c(r) and t in minieval.BITS:
                r = C(minieval.wrap(r[1], t, self.enums))
            elif not is_c(r) and t in minieval.BITS:
                r = ("cast", t, r)
            st.locals[key] = r
            return
        cur = st.locals.get(key)
        if cur is None and key == self.value_key:
            cur = C(st.lo) if st.lo == st.hi else ("sym", "value")
        if cur is not None and not is_c(cur) and is_c(r) and op in (">>=",) and (lhs.get("t") or "").replace("const ", "") in ("unsigned long", "unsigned long long"):
            # `value >>= 8`: the symbolic argument shifted right (64-bit unsigned: no wrap); the byte forms of trunc8 add the shifts up
            st.locals[key] = ("bin", ">>", cur, r)
            return
        if cur is None or not is_c(cur) or not is_c(r):
            raise Unknown("compound assignment on a value that is not decided")
        fake = {"k": "Bin", "op": op[:-1], "t": (lhs.get("t") or "").replace("const ", ""),
                "lhs": {"k": "Lit", "v": cur[1]}, "rhs": {"k": "Lit", "v": r[1]}}
        st.locals[key] = C(minieval.ev(fake, {}, self.enums))


def tabulate(fn, facts, value_param, major_param, avail_max=4096):
    """[(lo, hi, [(alo, ahi, stores, ret)])] for the discovered partition of the value domain."""
    enums = facts.enums
    ev = Evaluator(facts, "p:%s" % value_param, "p:%s" % major_param if major_param else None, enums)
    out = []
    work = [(0, U64)]
    guard = 0
    while work:
        guard += 1
        if guard > 200:
            raise Unknown("partition does not converge")
        lo, hi = work.pop(0)
        paths = []
        awork = [(0, avail_max)]
        split = None
        while awork:
            alo, ahi = awork.pop(0)
            st = State(lo, hi, alo, ahi)
            try:
                r = ev.run(ir.stmts(fn["body"]), st)
            except Split as s:
                split = s.at
                break
            except Fork as f:
                awork = [(alo, f.at - 1), (f.at, ahi)] + awork
                continue
            paths.append((alo, ahi, dict(st.stores), r[1] if r[0] == "return" else None, r[0]))
        if split is not None:
            work = [(lo, split - 1), (split, hi)] + work
            continue
        out.append((lo, hi, paths))
    return sorted(out, key=lambda c: c[0])


def trunc8(a, depth=0):
    """Canonical form of the low byte of an abstract value:  ('c', n) | ('byte', shift) | ('major',) | ('or', {..})"""
    if depth > 12:
        raise Unknown("byte expression too deep")
    if is_c(a):
        return C(a[1] & 0xFF)
    if a == ("sym", "value"):
        return ("byte", 0)
    if a == ("sym", "major"):
        return ("major",)
    if a[0] == "cast":
        t = a[1]
        bits = minieval.BITS.get(t, (64, False))[0] if t in minieval.BITS else 64
        if bits >= 8:
            return trunc8(a[2], depth + 1)
        raise Unknown("cast to %s" % t)
    if a[0] == "bin":
        op, x, y = a[1], a[2], a[3]
        if op == ">>" and is_c(y):
            inner = x
            while inner[0] == "cast" and (minieval.BITS.get(inner[1], (64, False))[0] >= 64):
                inner = inner[2]
            if inner == ("sym", "value"):
                return ("byte", y[1])
            if inner[0] == "bin" and inner[1] == ">>" and is_c(inner[3]):
                b = trunc8(("bin", ">>", inner[2], C(inner[3][1] + y[1])), depth + 1)
                return b
        if op == "&" and is_c(y) and (y[1] & 0xFF) == 0xFF:
            return trunc8(x, depth + 1)
        if op == "&" and is_c(x) and (x[1] & 0xFF) == 0xFF:
            return trunc8(y, depth + 1)
        if op == "|":
            parts = []
            for z in (x, y):
                t = trunc8(z, depth + 1)
                parts += list(t[1]) if t[0] == "or" else [t]
            cs = [p for p in parts if p[0] == "c"]
            rest = [p for p in parts if p[0] != "c"]
            cval = 0
            for p in cs:
                cval |= p[1]
            items = rest + ([C(cval)] if cs and (cval or not rest) else [])
            if len(items) == 1:
                return items[0]
            return ("or", tuple(sorted(items, key=repr)))
    raise Unknown("byte expression %r" % (a,))
