#include "src/cdns.h"
#include <sstream>
#include <iostream>
#include <new>
int main(){
  using namespace CDNS;
  int bad = 0;
  { // byte string head claiming 2^47 bytes, 3 bytes of payload
    std::string in("\x5b\x00\x00\x80\x00\x00\x00\x00\x00" "abc", 12);
    std::istringstream is(in); CdnsDecoder d(is);
    try { d.read_bytestring(); std::cout << "string: returned?!\n"; bad = 1; }
    catch (CdnsDecoderEnd&) { std::cout << "string: CdnsDecoderEnd (ok)\n"; }
    catch (std::bad_alloc&) { std::cout << "string: std::bad_alloc -- allocation sized by the length field\n"; bad = 1; }
    catch (std::length_error&) { std::cout << "string: std::length_error -- allocation sized by the length field\n"; bad = 1; } }
  { // array head claiming 2^61 elements
    std::string in("\x9b\x20\x00\x00\x00\x00\x00\x00\x00\x01", 10);
    std::istringstream is(in); CdnsDecoder d(is);
    IndexListItem l;
    try { l.read(d); std::cout << "list: returned?!\n"; bad = 1; }
    catch (CdnsDecoderEnd&) { std::cout << "list: CdnsDecoderEnd (ok)\n"; }
    catch (std::bad_alloc&) { std::cout << "list: std::bad_alloc -- allocation sized by the length field\n"; bad = 1; }
    catch (std::length_error&) { std::cout << "list: std::length_error -- allocation sized by the length field\n"; bad = 1; } }
  return bad;
}
