#!/bin/sh
# usage: tool/chk.sh <repo-dir|-> <prop>...   runs the quick check of each property against a tree, prints verdict lines only
r=$1; shift
for p in "$@"; do
  if [ "$r" = "-" ]; then ./check $p 2>&1; else VERIF_SEEDRUN=1 VERIF_NO_CACHE=1 ./check $p --repo $r 2>&1; fi | grep -A1 -E "^VIOLATION|^ANALYSIS-BROKEN|^KNOWN|\] (OK|FAIL|BROKEN)|Traceback|Error" | grep -v "^--" | cut -c1-${W:-260}
done
