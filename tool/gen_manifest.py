#!/usr/bin/env python3
"""Regenerates /verif/MANIFEST.json from the rule modules present and NOT_APPLICABLE below."""
import glob, importlib, json, os, sys
ROOT = os.path.dirname(os.path.dirname(os.path.abspath(__file__)))
sys.path.insert(0, ROOT)
sys.dont_write_bytecode = True
props = [json.loads(l) for l in open(os.path.join(ROOT, "properties.jsonl"))]
NOT_APPLICABLE = {}
UNDER_CONSTRUCTION = "check not built yet in this session (planned, see DESIGN.md section 5); not claimed until its rules run clean on the unchanged tree"
checks = []
na = []
for p in props:
    pid = p["id"]
    path = os.path.join(ROOT, "cdnsverif", "rules", pid + ".py")
    if os.path.exists(path) and pid not in NOT_APPLICABLE:
        mod = importlib.import_module("cdnsverif.rules." + pid)
        M = mod.META
        checks.append({
            "property_id": pid,
            "quick_cmd": "./check %s --tier quick" % pid,
            "thorough_cmd": "./check %s --tier thorough" % pid,
            "evidence_file": "evidence/%s.json" % pid,
            "replay_cmd_template": "./check %s --replay {path}" % pid,
            "engine": "cdnsverif",
            "level_claimed": {"category": M.get("level", "other"), "text": M["explanation"], "design_ref": "DESIGN.md section 5, " + pid},
            "level_note": "Trusted base: " + "; ".join(M.get("trusted_base", [])) + ". Assumes: " + "; ".join(M.get("assumptions", [])) +
                          ". Decides the structural / necessary-condition clauses named in DESIGN.md, not the run-time residue listed there under 'Not decided'.",
            "technique": M.get("technique", "static analysis: custom libTooling AST fact extractor + repository-specific rule engine (guards, dataflow, typestate, table agreement)"),
        })
    else:
        na.append({"property_id": pid, "reason": NOT_APPLICABLE.get(pid, UNDER_CONSTRUCTION)})
man = {
    "version": 1,
    "setup_cmd": "sh tool/build.sh",
    "hooks": {"guard": "CZ_NIC_C_DNS_VERIF", "enable": "none: the analysis reads the unmodified AST; no hooks are compiled into /repo",
              "baseline_off_cmd": "cmake -S /repo -B /repo/_build -G Ninja -DBUILD_TESTS=ON -DBUILD_DOC=OFF >/dev/null && cmake --build /repo/_build && ctest --test-dir /repo/_build -j8 --timeout 900",
              "source_commits": [], "add_only": True},
    "engines": [{"name": "cdnsverif", "path": "cdnsverif/", "serves_properties": [c["property_id"] for c in checks],
                 "kind_free_text": "clang-14 libTooling extractor (tool/cdns-facts.cc) producing a JSON mini-IR of the type-checked program; python3 rule engine deciding per-property obligations; exit 0/1/2"}],
    "checks": checks,
    "not_applicable": na,
    "notes": "Static analysis only. exit 2 = ANALYSIS-BROKEN (never a VIOLATION line). known_findings.json lists genuine defects; fix: commits in /repo are recorded there as fixed.",
}
json.dump(man, open(os.path.join(ROOT, "MANIFEST.json"), "w"), indent=1)
print("MANIFEST.json: %d checks, %d not_applicable" % (len(checks), len(na)))
