#include "src/cdns.h"
#include <fstream>
#include <sstream>
#include <iostream>
#include <cstdio>
int main(){
  using namespace CDNS;
  std::remove("/tmp/rp/r1.cdns"); std::remove("/tmp/rp/r2.cdns");
  FilePreamble fp;
  int bad = 0;
  {
    CdnsExporter ex(fp, std::string("/tmp/rp/r1.cdns"), CborOutputCompression::NO_COMPRESSION);
    GenericQueryResponse q; q.client_port = 53;
    ex.buffer_qr(q); ex.write_block();
    try { ex.rotate_output("/tmp/rp/r2.cdns", false); std::cout << "rotate_output(literal) returned normally\n"; }
    catch (CborOutputException& e) { std::cout << "rotate_output(literal) threw: " << e.what() << "\n"; return 0; }
    ex.buffer_qr(q); ex.write_block();
  }
  std::ifstream in("/tmp/rp/r1.cdns", std::ios::binary); std::stringstream ss; ss << in.rdbuf(); std::string data = ss.str();
  size_t n = 0, pos = 0; while ((pos = data.find("C-DNS", pos)) != std::string::npos) { n++; pos++; }
  std::ifstream in2("/tmp/rp/r2.cdns", std::ios::binary);
  std::cout << "first output contains " << n << " file headers; second output exists: " << (in2.good() ? "yes" : "no") << "\n";
  return n == 1 ? 0 : 1;
}
