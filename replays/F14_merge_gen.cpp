#include "src/cdns.h"
int main(){
  using namespace CDNS;
  for (int k = 0; k < 2; k++) {
    FilePreamble fp; if (k == 1) fp.m_minor_format_version = 7;       // second input: different format version
    CdnsExporter ex(fp, std::string(k ? "/tmp/rp/m/b.cdns" : "/tmp/rp/m/a.cdns"), CborOutputCompression::NO_COMPRESSION);
    for (int i = 0; i < 2; i++) { GenericQueryResponse q; q.client_port = 100 * (k + 1) + i; ex.buffer_qr(q); }
    ex.write_block();
  }
}
