#include "src/cdns.h"
#include <iostream>
int main(){
  using namespace CDNS;
  // 50 one-byte labels, then a length byte 63 at offset 100 of a 120-byte name: the label sum (113) passes the
  // old size test, but the next length byte would be read at offset 164
  std::string name;
  for (int i = 0; i < 50; i++) { name.push_back('\x01'); name.push_back('a'); }
  name.push_back('\x3f');
  name.append(19, 'b');
  GenericResourceRecord rr; rr.name = name;
  std::string out = rr.string();
  GenericAddressEventCount aec; aec.ip_address = std::string("\x7f", 1);   // 1-byte "address"
  out += aec.string();
  std::cout << "rendered " << out.size() << " bytes\n";
  return 0;
}
