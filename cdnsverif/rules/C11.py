"""C11 Block tables de-duplicate, keep indices stable and stay referentially closed (structural clauses)."""
from .. import ir, tables, consumption
from ..ir import (path, path_str, unwrap, unwrap_all_casts, callee_name, callee_qn, const_value, show, show_f, Env, conjuncts, cond)
from ..facts import AnalysisBroken

META = {
    "level": "other",
    "rule_text": "R11.1 hash/equality agreement of the eight key types (members hashed are a subset of members compared; "
                 "equality compares every member; != is its negation); R11.2 every instantiation of the raw-bytes hash has a "
                 "type with unique object representations (clang's __has_unique_object_representations); R11.3 BlockTable: "
                 "add = find-or-append, the reverse index borrows only from the table's own reference-stable store, clear "
                 "clears both, operator[] is bounds-checked; R11.4 reinterpret_cast wrappers are layout-compatible; R11.5 "
                 "CdnsBlock::clear resets every table and item container (same set as write/get_item_count/full); R11.6 "
                 "stored indices come from the add_* of the table they index. keeps-absent-distinct: operator== / hash_value do not read optional key members through value_or(). R11.3 find-index-complete: the size conditions under which find() relies on the reverse index imply the size conditions under which appended (and rebuilt) elements are entered into it, tabulated for 1..40 elements with every other atom free. R11.6 (= R02.6) also: an insertion function returns the table's answer on every path; an index remembered under a validity flag or an engaged optional is accepted only if every function that clears, assigns or swaps the table lowers it or takes the whole memo from the same source object. R11.7: a loop over a table's own items that refills its reverse index (what the copy operations use) stores a local counter that starts at 0 and is incremented once per item after the store.",
    "explanation": "Record/type facts and structural rules over block_table.h, hash.h and the key types: necessary conditions "
                   "for 'equal values get equal indices, distinct values distinct indices'. Behaviour of std::unordered_map "
                   "and hash quality are not decided.",
    "trusted_base": ["clang 14 AST, record layout and hasUniqueObjectRepresentations"],
    "assumptions": ["std::deque keeps references to elements valid under push_back (C++ standard)"],
}

KEY_TYPES = ["CDNS::ClassType", "CDNS::QueryResponseSignature", "CDNS::Question", "CDNS::RR", "CDNS::MalformedMessageData",
             "CDNS::StringItem", "CDNS::IndexListItem", "CDNS::AddressEventCount"]
BLOCK = "CDNS::CdnsBlock"


def short(q):
    return q.replace("CDNS::", "")


def members_used(fn, root):
    """Field names accessed on `root` (('this',) or ('p:x',)) inside fn."""
    out = set()
    for n in ir.walk(fn["body"]):
        if n.get("k") == "Member" and n.get("field"):
            p = path(n)
            if p and p[:len(root)] == root and len(p) > len(root):
                out.add(p[len(root)])
    return out


def check_hash_eq(run, rule, only=None, floor=30):
    facts = run.facts
    for T in (only or KEY_TYPES):
        rec = facts.record(T, rule=rule)
        fields = [f["n"] for f in rec["fields"]]
        eq = [f for f in facts.fns(T + "::operator==")]
        ne = [f for f in facts.fns(T + "::operator!=")]
        if len(eq) != 1 or len(ne) != 1:
            run.ob(rule, "%s:operators" % short(T), None, rec["file"], rec["line"], "operator==/!= not found")
            continue
        eq, ne = eq[0], ne[0]
        rhs = ("p:%s" % eq["params"][0]["n"],)
        lhs_m = members_used(eq, ("this",))
        rhs_m = members_used(eq, rhs)
        missing = [f for f in fields if f not in lhs_m or f not in rhs_m]
        run.ob(rule, "%s:eq-compares-all-members" % short(T), not missing, eq, eq["line"],
               "operator== compares all %d members" % len(fields) if not missing else
               "operator== ignores member(s) %s: two values differing only there share one table entry (distinct values lose their identity)" % missing)
        # only && of == comparisons
        ops = set(n.get("op") for n in ir.walk(eq["body"]) if n.get("k") in ("Bin", "OpCall") and n.get("op") in ("==", "!=", "<", ">", "||", "&&", "<=", ">="))
        ok = ops <= {"==", "&&"}
        run.ob(rule, "%s:eq-is-conjunction" % short(T), ok, eq, eq["line"],
               "operator== is a conjunction of member equalities" if ok else "operator== uses %s" % sorted(ops - {"==", "&&"}), nontrivial=False)
        # an optional member takes part with its presence: `x.value_or(d)` makes "absent" and "present with value d" the
        # same key, so two different values share one table / map entry
        hf_ = [f for f in facts.fns("CDNS::hash_value") if f["sig"] == ["const %s &" % T]]
        for fn_, what_ in [(eq, "operator==")] + [(h_, "hash_value") for h_ in hf_]:
            folded = []
            for c_ in ir.calls_in(fn_["body"]):
                if c_.get("k") == "MCall" and callee_name(c_) in ("value_or", "get_value_or"):
                    p_ = path(c_.get("recv"))
                    if p_ and len(p_) == 2 and p_[1] in fields:
                        folded.append(p_[1])
            run.ob(rule, "%s:%s-keeps-absent-distinct" % (short(T), what_), not folded, fn_, fn_["line"],
                   "%s treats an absent optional member as different from every value" % what_ if not folded else
                   "%s reads %s through value_or(): an absent member and one holding the default compare equal, so two distinct values "
                   "are merged into one entry" % (what_, sorted(set(folded))))
        # != is the negation of == (either !(*this == rhs) or member-wise !=)
        txt = show(ir.stmts(ne["body"])[0].get("e")) if ir.stmts(ne["body"]) else ""
        ok = ("!" in txt and "==" in txt) or ("!=" in txt and set(members_used(ne, ("this",))) == set(fields))
        run.ob(rule, "%s:ne-negates-eq" % short(T), ok, ne, ne["line"], "operator!= is the negation of operator==" if ok else "operator!= is %s" % txt, nontrivial=False)
        # hash: friend hash_value(const T&) or raw-bytes template over the whole object
        hf = [f for f in facts.fns("CDNS::hash_value") if f["sig"] == ["const %s &" % T]]
        if hf:
            hm = members_used(hf[0], ("p:%s" % hf[0]["params"][0]["n"],))
            extra = [m for m in hm if m not in lhs_m]
            run.ob(rule, "%s:hash-subset-of-eq" % short(T), not extra and bool(hm), hf[0], hf[0]["line"],
                   "hash reads %s, all compared by operator==" % sorted(hm) if not extra and hm else
                   ("hash reads member(s) %s that operator== does not compare: equal values hash differently and are stored twice" % extra if extra else "hash reads no member"))
        else:
            inst = [h for h in facts.hashinst.values() if h["T"] == T and h["sig"][0] == "const %s &" % T]
            ok = bool(inst)
            run.ob(rule, "%s:hash-whole-object" % short(T), ok, rec["file"], rec["line"],
                   "hashed through the raw-bytes template over the whole object (see R11.2)" if ok else "no hash function found for %s" % T)
    run.floor(rule, floor, "key-type obligations")


def check_byte_hash(run, rule):
    facts = run.facts
    n = 0
    # which instantiations are reached from which friend hash functions
    users = {}
    for f in facts.fns("CDNS::hash_value"):
        for c in ir.calls_in(f["body"]):
            cal = c.get("callee") or {}
            if cal.get("qn") == "CDNS::hash_value" and cal.get("targs"):
                users.setdefault(cal["targs"] + "|" + ",".join(cal["sig"]), set()).add(f["key"])
    for k, h in sorted(facts.hashinst.items()):
        byref = h["sig"][0].endswith("&")
        # the (ptr,size) form hashes `size` bytes of T[]: element type must be unique-representation too
        n += 1
        who = sorted(users.get("<%s>|%s" % (h["T"], ",".join(h["sig"])), []))
        run.ob(rule, "hash_value<%s>(%s)" % (h["T"], "ref" if byref else "ptr,size"), bool(h["unique"]), "src/hash.h", 0,
               "type has unique object representations (no padding, no indirection): equal values have equal bytes" if h["unique"] else
               "the raw-bytes hash is instantiated for %s, which has padding/pointers inside (no unique object representation): it hashes the "
               "object's bytes (pointer, size, capacity/SSO buffer), not its value, so equal values get different hashes and the table stores "
               "duplicates%s" % (h["T"], (" (reached from %s)" % ", ".join(w.split("(")[0] + "(" + w.split("(")[1][:40] for w in who)) if who else ""))
    run.floor(rule, 15, "raw-bytes hash instantiations")


def check_block_table(run, rule):
    facts = run.facts
    # (the table specialisations themselves, not helper types declared inside the class template)
    specs = [r for q, r in facts.records.items() if q.startswith("CDNS::BlockTable<") and q.endswith(">")]
    if len(specs) < 6:
        raise AnalysisBroken(rule, "only %d BlockTable specialisations found" % len(specs))
    for rec in sorted(specs, key=lambda r: r["qn"]):
        T = rec["qn"]
        tag = short(T)
        fields = {f["n"]: f for f in rec["fields"]}
        seqs = [f for f in rec["fields"] if f["t"].startswith(("std::deque<", "std::list<", "std::vector<"))]
        maps = [f for f in rec["fields"] if f["t"].startswith(("std::unordered_map<", "std::map<"))]
        if len(seqs) != 1 or len(maps) != 1:
            run.ob(rule, "%s:shape" % tag, None, rec["file"], rec["line"], "expected one value store and one reverse index, found %s" % [f["t"][:40] for f in rec["fields"]])
            continue
        store, index = seqs[0]["n"], maps[0]["n"]
        mt = maps[0]["t"]
        keyt = mt[mt.index("<") + 1:]
        depth = 0
        for i_, ch in enumerate(keyt):
            if ch == "<":
                depth += 1
            elif ch == ">":
                depth -= 1
            elif ch == "," and depth == 0:
                keyt = keyt[:i_]
                break
        keyt = keyt.strip()
        borrows = "KeyRef<" in keyt
        integral = keyt in ("unsigned long", "unsigned int", "long", "int", "unsigned long long", "unsigned short")
        # the reverse index must be keyed by the value (a reference to the stored element or a copy of the key), never by its hash
        run.ob(rule, "%s:index-keyed-by-value" % tag, not integral, rec["file"], maps[0].get("l", rec["line"]),
               "reverse index is keyed by %s" % ("a reference to the stored element" if borrows else keyt) if not integral else
               "the reverse index is keyed by %s (a hash of the value), so two distinct values with the same hash share one slot: the earlier one is no longer "
               "found and is stored again — the table then holds two equal entries" % keyt)
        if borrows:
            stable = seqs[0]["t"].startswith(("std::deque<", "std::list<"))
            run.ob(rule, "%s:reference-stable-store" % tag, stable, rec["file"], rec["line"],
                   "values live in a %s (references stay valid when the table grows)" % seqs[0]["t"].split("<")[0] if stable else
                   "the value store must be a reference-stable container (deque/list) because the index keeps references into it; found %s" % seqs[0]["t"][:50])
        # record_last_key: the KeyRef is rooted at the table's own store
        # every KeyRef built inside the class is rooted at the table's own store (not at an argument or a local)
        methods = [f for f in facts.functions.values() if f.get("cls") == T]
        writers_of_index = set()
        for mf in methods:
            for n_ in ir.walk(mf["body"]):
                if (n_.get("k") == "OpCall" and n_.get("op") == "[]" and n_.get("args") and path(n_["args"][0]) == ("this", index)) or \
                        (n_.get("k") == "MCall" and callee_name(n_) in ("insert", "emplace", "insert_or_assign", "try_emplace") and path(n_.get("recv")) == ("this", index)):
                    writers_of_index.add(mf["qn"])
        if borrows:
            for mf in methods:
                if mf["qn"].split("::")[-1] in ("find",):
                    continue      # lookups build a temporary KeyRef from the argument; it is not stored
                lookup_args = set()
                for c in ir.calls_in(mf["body"]):
                    # a KeyRef handed to a lookup of the index is a temporary that the index does not keep
                    if c.get("k") == "MCall" and callee_name(c) in ("find", "count", "contains", "equal_range") and path(c.get("recv")) == ("this", index):
                        for a_ in c.get("args", []):
                            for x_ in ir.walk(a_):
                                lookup_args.add(id(x_))
                for c in ir.calls_in(mf["body"]):
                    if id(c) in lookup_args:
                        continue
                    if c.get("k") == "Construct" and "KeyRef" in (c.get("t") or "") and c.get("args") and not c.get("copymove"):
                        txt = show(c["args"][0])
                        src = unwrap_all_casts(c["args"][0])
                        rooted = ("this.%s" % store) in txt
                        if not rooted:
                            # an iterator / reference local obtained from the own store
                            envm = Env(mf["body"])
                            for x_ in ir.walk(c["args"][0]):
                                if x_.get("k") == "Ref" and x_.get("d") == "local":
                                    d_ = envm.defs.get(path(x_)[0]) if path(x_) else None
                                    if d_ is not None and ("this.%s" % store) in show(d_):
                                        rooted = True
                                    for lp_ in ir.walk(mf["body"]):
                                        if lp_.get("k") == "For" and lp_.get("init") is not None:
                                            for v_ in (lp_["init"].get("vars", []) if lp_["init"].get("k") == "Decl" else []):
                                                if "n" in v_ and ("l:%s#%s" % (v_["n"], v_["id"]),) == path(x_) and v_.get("init") is not None and ("this.%s" % store) in show(v_["init"]):
                                                    rooted = True
                        if not rooted:
                            # a range-for variable over the own store is an element of the own store
                            for lp_ in ir.walk(mf["body"]):
                                if lp_.get("k") == "RangeFor" and path(lp_.get("range")) == ("this", store) and ("l:%s#%s" % (lp_["var"]["n"], lp_["var"]["id"])) in txt:
                                    rooted = True
                        run.ob(rule, "%s:%s:index-borrows-own-store" % (tag, mf["qn"].split("::")[-1]), rooted, mf, c.get("l", mf["line"]),
                               "the stored KeyRef references an element of %s" % store if rooted else
                               "the KeyRef stored in %s is built from %s, not from an element of the table's own %s: it dangles when that object dies" % (index, txt, store))
        # add_value appends, then the appended element is entered into the index (directly or through a helper of the class)
        for av in facts.fns(T + "::add_value"):
            seq = []
            for c in ir.calls_in(av["body"]):
                if callee_name(c) in ("push_back", "emplace_back") and path(c.get("recv")) == ("this", store):
                    seq.append("append")
                elif callee_qn(c) in writers_of_index or (c.get("k") == "OpCall" and c.get("op") == "[]" and c.get("args") and path(c["args"][0]) == ("this", index)):
                    seq.append("index")
            ok = "append" in seq and "index" in seq and seq.index("append") < seq.index("index")
            run.ob(rule, "%s:add_value(%s)" % (tag, "rvalue" if "&&" in av["sig"][0] else "const-ref"), ok, av, av["line"],
                   "append, then index the appended element" if ok else "add_value must append to %s and then enter the element into %s (found %s)" % (store, index, seq))
        for ad in facts.fns(T + "::add"):
            # find-or-append
            calls = [callee_name(c) for c in ir.calls_in(ad["body"])]
            env = Env(ad["body"])
            guarded = False
            for st, g, loops in ir.guarded_statements(ad["body"], env):
                if st.get("k") in ("IfCond", "LoopHead", "SwitchHead"):
                    continue
                if any(callee_name(c) == "add_value" for c in ir.calls_in(st)):
                    guarded = any("find(" in repr(cj) or "find" in show_f(cj) for cj in conjuncts(g)) and any(cj[0] == "not" for cj in conjuncts(g))
                    if not guarded:
                        # the lookup spelled out: an iterator obtained from index.find(..) compared equal to end()
                        for cj in conjuncts(g):
                            if cj[0] == "cmp" and cj[1] == "==" and "end()" in (str(cj[2]) + str(cj[3])):
                                for nm_, d_ in env.defs.items():
                                    if nm_ in (str(cj[2]) + str(cj[3])) and d_ is not None and \
                                            any(callee_name(c_) == "find" and path(c_.get("recv")) == ("this", index) for c_ in ir.calls_in(d_)):
                                        guarded = True
            ok = "find" in calls and "add_value" in calls and guarded
            run.ob(rule, "%s:add=find-or-append" % tag, ok, ad, ad["line"],
                   "add() appends only when find() fails" if ok else "add() must return the found index and append only when find() fails")
        for cl in facts.fns(T + "::clear"):
            cleared = set(path(c.get("recv"))[1] for c in ir.calls_in(cl["body"]) if callee_name(c) == "clear" and path(c.get("recv")) and len(path(c.get("recv"))) == 2)
            ok = cleared == {store, index}
            run.ob(rule, "%s:clear-both" % tag, ok, cl, cl["line"],
                   "clear() empties the store and the index" if ok else "clear() empties %s but the table consists of %s and %s" % (sorted(cleared), store, index))
        for op in facts.fns(T + "::operator[]"):
            env = Env(op["body"])
            ok = False
            for st, g, loops in ir.guarded_statements(op["body"], env):
                if st.get("k") == "Return" and any(n.get("k") == "OpCall" and n.get("op") == "[]" for n in ir.walk(st)):
                    ok = any(cj[0] == "cmp" and cj[1] == "<" and "size(this.%s)" % store in cj[3] for cj in conjuncts(g))
            throws = any(n.get("k") == "Throw" for n in ir.walk(op["body"]))
            run.ob(rule, "%s:operator[]-checked" % tag, ok and throws, op, op["line"],
                   "operator[] is bounds-checked and throws" if ok and throws else "operator[] returns an element without checking pos < size()")
        # find() looks the key up in the index and returns the stored index
        for fd in facts.fns(T + "::find"):
            ok = any(callee_name(c) == "find" and path(c.get("recv")) == ("this", index) for c in ir.calls_in(fd["body"]))
            run.ob(rule, "%s:find-uses-index" % tag, ok, fd, fd["line"], "find() consults the reverse index", nontrivial=False)
            # ... and only in states in which the index is complete.  The functions that enter elements into the index (after an
            # append, when rebuilding after a copy) may do so under a condition on the table's size (a table that is scanned
            # while it is small); find() may then rely on the index exactly for the sizes at which every element was entered.
            # Tabulated over the size: lookup-guard(n) must imply store-guard(n) for every n >= 1.
            verdict, why = index_complete_where_used(facts, T, fd, store, index, writers_of_index)
            run.ob(rule, "%s:find-index-complete" % tag, verdict, fd, fd["line"], why)
    run.floor(rule, 28, "BlockTable obligations over all specialisations")


def _eval_over_size(g, n, store, extra):
    """guard formula g for a table of n elements; atoms about other state take the values in `extra` (a dict), None = unknown"""
    h = g[0]
    if h == "T":
        return True
    if h == "F":
        return False
    if h == "not":
        r = _eval_over_size(g[1], n, store, extra)
        return None if r is None else (not r)
    if h in ("and", "or"):
        rs = [_eval_over_size(x, n, store, extra) for x in g[1:]]
        if h == "and":
            return False if any(r is False for r in rs) else (None if any(r is None for r in rs) else True)
        return True if any(r is True for r in rs) else (None if any(r is None for r in rs) else False)
    if h == "nonempty" and g[1] == ("this", store):
        return n > 0
    if h in ("nonempty", "nz", "present"):
        key = "%s:%s" % (h, g[1] if isinstance(g[1], str) else ir.path_str(g[1]))
        return extra.get(key)
    if h == "cmp":
        r = ir.eval_formula(g, {"size(this.%s)" % store: n})
        if r is None:
            return extra.get("atom:%r" % (g,))      # a comparison of something else (a memo's key): either way
        return r
    return None


def _other_atoms(g, store):
    out = set()
    for a in ir.walk_formula(g):
        if a[0] in ("nonempty", "nz", "present") and not (a[0] == "nonempty" and a[1] == ("this", store)):
            out.add("%s:%s" % (a[0], a[1] if isinstance(a[1], str) else ir.path_str(a[1])))
        elif a[0] == "cmp" and ir.eval_formula(a, {"size(this.%s)" % store: 1}) is None:
            out.add("atom:%r" % (a,))
    return out


def index_complete_where_used(facts, T, fd, store, index, writers_of_index):
    import itertools
    # where find() relies on the index
    envf = Env(fd["body"])
    g_use = []
    scans = False
    for st, g, loops in ir.guarded_statements(fd["body"], envf):
        if st.get("k") in ("IfCond", "SwitchHead"):
            continue
        if st.get("k") == "LoopHead":
            continue
        if any(callee_name(c) == "find" and path(c.get("recv")) == ("this", index) for c in ir.calls_in(st)):
            g_use.append(g)
    for lp in ir.walk(fd["body"]):
        if lp.get("k") == "RangeFor" and path(lp.get("range")) == ("this", store):
            scans = True
    if not g_use:
        return None, "find() does not consult the reverse index at all"
    # where elements are entered: a store of one element, or a call of a function of the class that stores all of them
    def stores_of(fn):
        env_ = Env(fn["body"])
        out = []
        for st, g, loops in ir.guarded_statements(fn["body"], env_):
            if st.get("k") in ("IfCond", "SwitchHead", "LoopHead"):
                continue
            for x in ir.walk(st):
                if x.get("k") == "OpCall" and x.get("op") == "[]" and x.get("args") and path(x["args"][0]) == ("this", index):
                    out.append(g)
                elif x.get("k") == "MCall" and callee_name(x) in ("insert", "emplace", "insert_or_assign", "try_emplace") and path(x.get("recv")) == ("this", index):
                    out.append(g)
                elif x.get("k") == "MCall" and callee_qn(x) in writers_of_index and callee_qn(x) != fn["qn"] and unwrap_all_casts(x.get("recv") or {}).get("k") == "This":
                    inner = [f_ for f_ in facts.fns(callee_qn(x)) if f_.get("cls") == T]
                    for f_ in inner[:1]:
                        for gi in stores_of(f_):
                            out.append(ir.f_and(g, gi))
        return out
    problems = []
    unknown = False
    n_fn = 0
    for fn in facts.functions.values():
        if fn.get("cls") != T or fn["qn"] not in writers_of_index or fn.get("body") is None:
            continue
        gs = stores_of(fn)
        if not gs:
            continue
        n_fn += 1
        atoms = sorted(set().union(*[_other_atoms(g, store) for g in gs + g_use]))
        if len(atoms) > 7:
            unknown = True
            continue
        for n in range(1, 41):
            use = None
            for combo in itertools.product((False, True), repeat=len(atoms)):
                extra = dict(zip(atoms, combo))
                u = [_eval_over_size(g, n, store, extra) for g in g_use]
                e = [_eval_over_size(g, n, store, extra) for g in gs]
                if any(x is None for x in u + e):
                    unknown = True
                    continue
                if any(u) and not any(e):
                    problems.append((n, fn["qn"].split("::")[-1]))
                    break
    if problems:
        n0, who = problems[0]
        return False, "with %d element(s) in the table find() relies on %s, but %s() enters elements into it only under a condition that is false " \
                      "for that size: a stored value is reported as absent and appended a second time" % (n0, index, who)
    if unknown:
        return None, "the conditions under which %s is maintained and consulted are not comparable as functions of the table's size" % index
    if n_fn == 0:
        return None, "no function of the class enters elements into %s" % index
    partial = any(_eval_over_size(g, n, store, {}) is False for g in g_use for n in range(1, 41))
    if partial and not scans:
        return None, "find() consults %s only for some sizes and no scan of %s covers the others" % (index, store)
    return True, "find() relies on %s only for table sizes at which every element has been entered (%d maintaining function(s), sizes 1..40 tabulated)" % (index, n_fn)


def check_reinterpret(run, rule):
    facts = run.facts
    n = 0
    for f in facts.functions.values():
        if f.get("cls") != BLOCK:
            continue
        for c in ir.walk(f["body"]):
            if c.get("k") == "Cast" and c.get("style") == "reinterpret":
                to = (c.get("t") or "").replace("const ", "")
                frm = (c.get("from") or "").replace("const ", "")
                rec = facts.records.get(to)
                n += 1
                key = "%s:reinterpret<%s>" % (short(f["qn"]), short(to))
                if rec is None:
                    run.ob(rule, key, None, f, c.get("l", 0), "target record %s unknown" % to)
                    continue
                flds = rec["fields"]
                ok = len(flds) == 1 and flds[0].get("offset") == 0 and flds[0]["t"] == frm and rec.get("size") == flds[0].get("size") and not rec.get("polymorphic") and not rec.get("bases")
                run.ob(rule, key, ok, f, c.get("l", 0),
                       "%s is layout-identical to its single member of type %s" % (short(to), frm) if ok else
                       "reinterpret_cast of a %s to %s, but %s is not a single-member wrapper of that type at offset 0 (fields: %s): the lookup key reads foreign memory"
                       % (frm, short(to), short(to), [(x["n"], x["t"]) for x in flds]))
    run.floor(rule, 4, "reinterpret_cast lookups")


def container_sets(run, rule):
    facts = run.facts
    rec = facts.record(BLOCK, rule=rule)
    tabs = [f["n"] for f in rec["fields"] if f["t"].startswith("CDNS::BlockTable<")]
    items = [f["n"] for f in rec["fields"] if f["t"].startswith("std::vector<") or f["t"].startswith("std::unordered_map<") or f["t"].startswith("std::deque<")]
    return rec, tabs, items


def check_clear(run, rule):
    facts = run.facts
    rec, tabs, items = container_sets(run, rule)
    cl = facts.fn("CDNS::CdnsBlock::clear", rule=rule)
    cleared = set()
    conditional = {}
    envc = ir.Env(cl["body"])
    for st, g, loops in ir.guarded_statements(cl["body"], envc):
        if st.get("k") in ("IfCond", "LoopHead", "SwitchHead"):
            continue
        for c in ir.calls_in(st):
            if callee_name(c) == "clear":
                p = path(c.get("recv"))
                if p and len(p) == 2 and p[0] == "this":
                    # unconditional, or skipped only when this very container is already empty
                    extra = [a for a in ir.conjuncts(g) if a != ("T",) and ("this.%s" % p[1]) not in repr(a) and ("'this', '%s'" % p[1]) not in repr(a)]
                    if not extra:
                        cleared.add(p[1])
                    else:
                        conditional[p[1]] = g
    missing = [m for m in tabs + items if m not in cleared]
    cond_missing = [m for m in missing if m in conditional]
    run.ob(rule, "CdnsBlock::clear:all-containers", not missing, cl, cl["line"],
           "clear() empties all %d tables and %d item containers" % (len(tabs), len(items)) if not missing else
           ("clear() empties %s only when %s: a block in another state keeps these entries, and they stay visible (with their old indices) in the "
            "next block" % (cond_missing, ir.show_f(conditional[cond_missing[0]])) if cond_missing else
            "clear() does not empty %s: entries of the previous block stay visible in the next one" % missing))
    # statistics and earliest time reset
    assigns = {lp: rhs for lp, rhs, node in consumption.assignment_targets(ir.stmts(cl["body"])) if lp}
    ok = ("this", "m_block_preamble", "earliest_time") in assigns and ("this", "m_block_statistics") in assigns
    run.ob(rule, "CdnsBlock::clear:preamble-and-statistics", ok, cl, cl["line"],
           "earliest time and statistics are reset" if ok else "clear() must reset m_block_preamble.earliest_time and m_block_statistics")
    # sibling functions use the same item-container set
    for fn_name in ("get_item_count", "full"):
        f = facts.fn("CDNS::CdnsBlock::" + fn_name, rule=rule)
        used = set()
        for n in ir.walk(f["body"]):
            if n.get("k") == "MCall" and callee_name(n) == "size":
                p = path(n.get("recv"))
                if p and len(p) == 2:
                    used.add(p[1])
        ok = used == set(items)
        run.ob(rule, "CdnsBlock::%s:item-containers" % fn_name, ok, f, f["line"],
               "%s() looks at exactly the three item containers" % fn_name if ok else "%s() looks at %s, the item containers are %s" % (fn_name, sorted(used), sorted(items)))
    wr = facts.fn("CDNS::CdnsBlock::write", rule=rule)
    wt = facts.fn("CDNS::CdnsBlock::write_blocktables", rule=rule)
    for f, want, what in ((wr, items, "item containers"), (wt, tabs, "tables")):
        used = set()
        for n in ir.walk(f["body"]):
            if n.get("k") == "RangeFor":
                p = path(n.get("range"))
                if p and len(p) == 2:
                    used.add(p[1])
        ok = used == set(want)
        run.ob(rule, "%s:iterates-all-%s" % (short(f["qn"]), what.replace(" ", "-")), ok, f, f["line"],
               "serialises all %d %s" % (len(want), what) if ok else "serialises %s, the %s are %s" % (sorted(used), what, sorted(want)))
    run.floor(rule, 6, "container-set obligations")


def check(run):
    check_hash_eq(run, "R11.1")
    check_byte_hash(run, "R11.2")
    check_block_table(run, "R11.3")
    check_reinterpret(run, "R11.4")
    check_clear(run, "R11.5")
    tables.check_index_provenance(run, "R11.6")
    tables.check_reindex_loops(run, "R11.7")
