"""C13 Rotation yields self-contained files and loses, repeats or reorders nothing (ordering clauses)."""
from .. import ir, writers, consumption
from ..writers import BASE, WSTR, WINT, PLAIN, GZ, XZ, ENC, EXP, short, ordered_calls, names
from ..ir import path, path_str, unwrap, unwrap_all_casts, callee_name, callee_qn, show, show_f, Env, conjuncts, const_value
from ..facts import AnalysisBroken
from . import C02

META = {
    "level": "other",
    "rule_text": "R13.1 CdnsExporter::rotate_output: [export -> write_block()], [blocks -> break], encoder rotation, counter reset, in "
                 "this order on every path, and it never clears the buffered block itself; R13.2 CdnsEncoder::rotate_output flushes "
                 "before delegating; R13.3 compressed writers: close (finish stream) -> inner rotate -> open (re-init); R13.4 leaf "
                 "writers: close -> assign new target -> open, nothing writes the old handle after close; R13.5 no override of "
                 "rotate_output can return without having rotated (silent no-op) — it rotates or throws on every path; R13.6 the "
                 "header of each output serialises the current file preamble. R13.3 also: the compressors are never re-initialised with a partial reset (deflateResetKeep and the like). R13.8 = the name obligations of R15.1/R15.2 (the file a rotation publishes is the file that was written: scratch name = final name + .part). R13.9: a data member that is always assigned the same function of other members (cdnsverif/derived.py) is recomputed by every member function that changes those members; the lazy form under a validity flag / stored key is refreshed before every read and invalidated after every change. R13.4 also accepts close(); the new file opened aside in a local stream; stream and name committed together. R13.10 = R03.11: a pointer member of the exporter into the preamble's parameter sets is re-seated by every member function that can make that vector grow.",
    "explanation": "must-precede / who-may-call rules over the rotate path (8 functions incl. template instantiations from the "
                   "verif-owned instantiation TU). 'Records in all outputs = records buffered' as an equality over histories is not "
                   "decided.",
    "trusted_base": ["clang 14 AST", "tu/instantiate.cpp instantiates rotate_output<T> for T in {std::string,int} exactly as user code does"],
    "assumptions": [],
}


def check(run):
    # an output closed by a rotation is a complete file only if nothing was dropped on the way into it (R06.2 imported)
    from . import C06 as _C06
    _C06.check_public_writes(run, rename={"R06.2": "R13.7", "R06.3": None})
    # the file a rotation publishes is the file that was being written: scratch name = final name + .part (R15.1/R15.2 imported)
    from .. import derived as _derived
    _derived.report(run, "R13.9", ["CDNS::Writer<std::basic_string<char>>", "CDNS::Writer<int>", "CDNS::CdnsEncoder", "CDNS::CborOutputWriter", "CDNS::GzipCborOutputWriter", "CDNS::XzCborOutputWriter", "CDNS::CdnsExporter"])
    from . import C15 as _C15
    _C15.check_names(_C06._Renamed(run, {"R15.1": "R13.8", "R15.2": "R13.8"}), "R15.1", "R15.2", only_names=True)
    # a parameter set added while an output is open is used by later blocks: a pointer the exporter keeps to the active set
    # must survive the growth of the vector it points into (R03.11 imported)
    from . import C03 as _C03
    _C03.check_member_pointers(run, "R13.10", floor=0)
    facts = run.facts
    # ---------------- R13.1 (exporter): framing obligations are shared with C02
    C02.check_framing(run)
    # rename the imported obligations' rule ids that concern rotation
    for o in run.obs:
        if o.rule in ("R02.3", "R02.4"):
            o.rule = "R13.1"
    run.floors.pop("R02.3", None)
    run.floors.pop("R02.4", None)
    rots = facts.fns(EXP + "::rotate_output")
    if not rots:
        raise AnalysisBroken("R13.1", "CdnsExporter::rotate_output<T> not instantiated")
    for rf in rots:
        tag = "rotate_output%s" % rf.get("targs", "")
        env = Env(rf["body"])
        calls = ordered_calls(rf, env)
        exp = [c for c in calls if callee_qn(c[0]) == EXP + "::write_block"]
        flag = "p:%s" % rf["params"][1]["n"]
        ok = len(exp) == 1 and conjuncts(exp[0][1]) == [("nz", flag)] and not exp[0][0].get("args")
        why_bad = "write_block() must be called exactly under export_current_block (found guard %s)" % (show_f(exp[0][1]) if exp else "no call")
        one_arg = False
        if len(exp) == 1 and conjuncts(exp[0][1]) == [("nz", flag)] and exp[0][0].get("args") and path(exp[0][0]["args"][0]) == ("this", "m_block"):
            # the same export spelled out: write_block(m_block), then - under the same flag - clear and re-arm (what write_block()
            # does after the write)
            one_arg = True
            later = [c for c in calls if calls.index(c) > calls.index(exp[0])]
            cl_ = [c for c in later if callee_qn(c[0]) == "CDNS::CdnsBlock::clear" and path(c[0].get("recv")) == ("this", "m_block") and conjuncts(c[1]) == [("nz", flag)]]
            ra_ = [c for c in later if callee_qn(c[0]) == "CDNS::CdnsBlock::set_block_parameters" and path(c[0].get("recv")) == ("this", "m_block") and conjuncts(c[1]) == [("nz", flag)]]
            ok = bool(cl_) and bool(ra_)
            if not ok:
                why_bad = "write_block(m_block) exports the buffered block but it is not cleared and re-armed under the same flag afterwards: its records " \
                    "would appear again in the next output"
        run.ob("R13.1", "%s:export-iff-requested" % tag, ok, rf, exp[0][0]["l"] if exp else rf["line"],
               "the buffered block is exported exactly when export_current_block is true" if ok else why_bad)
        clears = [c for c in calls if callee_name(c[0]) in ("clear", "reset") and path(c[0].get("recv")) == ("this", "m_block")]
        touched = [lp for lp, rhs, node in consumption.assignment_targets(ir.stmts(rf["body"])) if lp and lp[:2] == ("this", "m_block")]
        if one_arg:
            # clearing is part of the export there: only a clear outside the flag loses records that were not exported
            clears = [c for c in clears if conjuncts(c[1]) != [("nz", flag)]]
        run.ob("R13.1", "%s:keeps-buffered-records" % tag, not clears and not touched, rf, (clears[0][0]["l"] if clears else rf["line"]),
               "rotation does not touch the buffered block: records buffered without export appear in the next output" if not clears and not touched else
               "rotate_output clears/overwrites m_block: records buffered but not exported are lost")
        arg_ok = any(callee_qn(c[0]) == ENC + "::rotate_output" and path(c[0]["args"][0]) == ("p:%s" % rf["params"][0]["n"],) for c in calls)
        run.ob("R13.1", "%s:new-target-forwarded" % tag, arg_ok, rf, rf["line"], "the new output identifier is handed to the encoder unchanged")
    run.floor("R13.1", 14, "exporter rotation obligations")

    # ---------------- R13.2 encoder
    for ef in facts.fns(ENC + "::rotate_output"):
        tag = "CdnsEncoder::rotate_output%s" % ef.get("targs", "")
        calls = ordered_calls(ef)
        nm = names(calls)
        fl = [i for i, c in enumerate(calls) if callee_qn(c[0]) == ENC + "::flush_buffer" and not c[2]]
        ro = [i for i, c in enumerate(calls) if callee_qn(c[0]) == BASE + "::rotate_output"]
        ok = len(ro) >= 1 and len(fl) >= 1 and fl[0] < ro[0]
        run.ob("R13.2", "%s:flush-before-rotate" % tag, ok, ef, ef["line"],
               "staged bytes are flushed to the old output before the writer switches" if ok else
               "flush_buffer() must precede m_cos->rotate_output(): staged bytes would go to the new output (call order %s)" % nm)
    run.floor("R13.2", 2, "encoder rotate instantiations")

    # ---------------- R13.3 / R13.4 / R13.5 writer overrides
    from . import C14
    C14.check_no_partial_reset(run, "R13.3")      # the re-init of "open (re-init)" is a full one
    ovs = writers.overrides_of(facts, "rotate_output")
    ovs = [f for f in ovs if f.get("cls") != BASE]
    if len(ovs) < 5:
        raise AnalysisBroken("R13.3", "only %d rotate_output overrides found" % len(ovs))
    for f in ovs:
        cls = f["cls"]
        tag = short(cls) + "::rotate_output"
        env = Env(f["body"])
        calls = ordered_calls(f, env)
        own = [(i, callee_name(c[0]), c) for i, c in enumerate(calls)
               if (c[0].get("k") == "MCall" and unwrap(c[0].get("recv") or {}).get("k") == "This" and callee_name(c[0]) in ("close", "open"))]
        inner = [(i, c) for i, c in enumerate(calls) if callee_qn(c[0]) == BASE + "::rotate_output"]
        assigns = [(lp, rhs, node) for lp, rhs, node in consumption.assignment_targets(ir.stmts(f["body"])) if lp == ("this", "m_value")]
        # (the new target may be installed by exchanging m_value with a local that holds it)
        for c_ in ir.calls_in(f["body"]):
            if c_.get("k") == "MCall" and callee_name(c_) == "swap" and len(c_.get("args", [])) == 1 and path(c_.get("recv")) == ("this", "m_value") and \
                    path(unwrap_all_casts(c_["args"][0])) and path(unwrap_all_casts(c_["args"][0]))[0].startswith("l:"):
                assigns.append((("this", "m_value"), c_["args"][0], c_))
        # what a handler does on its way to re-throwing (restoring the previous name after a failed open, ...) is not part
        # of the rotation sequence itself
        in_rethrow = set()
        for t_ in ir.walk(f["body"]):
            if t_.get("k") == "Try":
                for h_ in t_.get("handlers", []):
                    hb = ir.stmts(h_.get("body"))
                    if hb and unwrap(hb[-1]).get("k") == "Throw" and unwrap(hb[-1]).get("rethrow"):
                        in_rethrow |= set(id(x) for x in ir.walk(h_.get("body")))
        assigns = [a for a in assigns if id(a[2]) not in in_rethrow]
        if cls in (GZ, XZ):
            seq = [n for i, n, c in own]
            ok = seq == ["close", "open"] and len(inner) == 1 and own[0][0] < inner[0][0] < own[1][0] and \
                all(c[1] == ("T",) for i, n, c in own) and inner[0][1][1] == ("T",)
            run.ob("R13.3", tag + ":close-rotate-open", ok, f, f["line"],
                   "compressed stream is finished, the inner writer rotates, the compressor is re-initialised — unconditionally" if ok else
                   "expected close(); m_writer->rotate_output(value); open(); unconditionally (found %s, inner rotate x%d)" % (seq, len(inner)))
        elif cls == PLAIN:
            ok = len(inner) == 1 and inner[0][1][1] == ("T",)
            run.ob("R13.3", tag + ":delegates", ok, f, f["line"], "delegates rotation to the inner writer unconditionally")
        else:
            seq = [n for i, n, c in own]
            pos_assign = None
            order = {}
            for i, n in enumerate(ir.walk(f["body"])):
                order[id(n)] = i
            ok = seq == ["close", "open"] and len(assigns) == 1
            if ok:
                a = order[id(assigns[0][2])]
                ok = order[id(own[0][2][0])] < a < order[id(own[1][2][0])]
            elif seq == ["close"] and len(assigns) == 1:
                # the other order: close(); a local ofstream opened on the new name; committed to m_out together with the name
                # (that the name it was opened on is the new name + extension + .part is R13.8)
                aside = [d_ for d_ in ir.walk(f["body"]) if d_.get("k") == "Decl" and len(d_.get("vars", [])) == 1 and
                         "basic_ofstream" in (d_["vars"][0].get("t") or "") and d_["vars"][0].get("init") is not None]
                moved = [n_ for lp_, rhs_, n_ in consumption.assignment_targets(ir.stmts(f["body"])) if lp_ == ("this", "m_out") and aside and
                         path(unwrap_all_casts(rhs_)) == ("l:%s#%s" % (aside[0]["vars"][0]["n"], aside[0]["vars"][0]["id"]),)]
                if len(aside) == 1 and len(moved) == 1:
                    ok = order[id(own[0][2][0])] < order[id(aside[0])] < order[id(moved[0])] and order[id(aside[0])] < order[id(assigns[0][2])]
            run.ob("R13.4", tag + ":close-assign-open", ok, f, f["line"],
                   "old target closed, new target stored, new target opened — in this order" if ok else
                   "expected close(); m_value = <new target>; open(); (found calls %s, %d assignment(s) to m_value)" % (seq, len(assigns)))
        # R13.5: every normal exit has rotated (close+open or inner rotate executed before it)
        rets = []
        for st, g, loops in ir.guarded_statements(f["body"], env):
            if st.get("k") == "Return":
                rets.append((st, g))
        silent = []
        order = {}
        for i, n in enumerate(ir.walk(f["body"])):
            order[id(n)] = i
        did = [order[id(c[0])] for c in calls if callee_name(c[0]) in ("open",) or callee_qn(c[0]) == BASE + "::rotate_output"]
        for st, g in rets:
            if not any(d < order[id(st)] for d in did):
                silent.append((st, g))
        run.ob("R13.5", tag + ":no-silent-no-op", not silent, f, silent[0][0].get("l", f["line"]) if silent else f["line"],
               "every normal exit has rotated the output" if not silent else
               "returns without rotating when %s: the caller (CdnsExporter::rotate_output) then resets its block counter over an output that "
               "was never switched — the next block writes a second file header into the old file" % show_f(silent[0][1]))
    # the primary template Writer<T> (does nothing) must not be instantiated by the library's own factories
    prim = [f for f in facts.functions.values() if (f.get("cls") or "").startswith("CDNS::Writer<") and f.get("cls") not in (WSTR, WINT)
            and f["qn"].split("::")[-1] in ("rotate_output", "write")]
    run.ob("R13.5", "primary-Writer<T>-not-instantiated", not prim, prim[0] if prim else None, 0,
           "the do-nothing primary template Writer<T> is not instantiated in the TU set" if not prim else
           "the primary template %s (write/rotate_output do nothing) is instantiated: data silently vanishes" % prim[0].get("cls"), nontrivial=False)
    run.floor("R13.3", 3, "compressed/plain writers")
    run.floor("R13.4", 2, "leaf writers")
    run.floor("R13.5", 6, "rotate_output overrides")

    # ---------------- R13.6 header uses the current preamble (shared with C09 R09.5)
    wh = facts.fn(EXP + "::write_file_header", rule="R13.6")
    wcalls = [c for c in ir.calls_in(wh["body"]) if callee_qn(c) == "CDNS::FilePreamble::write"]
    ok = len(wcalls) == 1 and path(wcalls[0].get("recv")) == ("this", "m_file_preamble")
    run.ob("R13.6", "header-serialises-current-preamble", ok, wh, wh["line"],
           "each output's header serialises m_file_preamble as it is at that moment (parameter sets added before the rotation are included)")
    ab = facts.fn(EXP + "::add_block_parameters", rule="R13.6")
    ok = any(callee_qn(c) == "CDNS::FilePreamble::add_block_parameters" and path(c.get("recv")) == ("this", "m_file_preamble") for c in ir.calls_in(ab["body"]))
    run.ob("R13.6", "add_block_parameters:into-the-exporter's-preamble", ok, ab, ab["line"], "new parameter sets are appended to the preamble the header serialises")
    run.floor("R13.6", 2, "header obligations")
