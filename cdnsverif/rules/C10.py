"""C10 Reported byte counts equal the bytes actually produced (structural: additive flow of counts)."""
from .. import ir, emission, accounting
from ..ir import path, unwrap, callee_name, callee_qn, const_value, show, Env
from . import C06

META = {
    "level": "other",
    "rule_text": "R10.1: for every function that (transitively) calls a CdnsEncoder write primitive and returns "
                 "size_t, each emitter call's result is used additively on the way to the return value and every "
                 "return yields the accumulator. R10.2: the primitives return exactly the bytes they store "
                 "(imported from the encoder analysis). R10.3: single sink / who-may-call. A carrier assigned (=) into an accumulator that already holds counts is an overwrite; per return every carrier updated on a compatible path must be part of the value returned. R10.2 shares R06.6's cursor-distance clause.",
    "explanation": "Dataflow over the structured AST: a discarded or overwritten count, or a return that is not the "
                   "accumulator, is reported at its call site. Holds for all histories because it is a per-path "
                   "property of each function; sums over API calls follow by induction on the call tree.",
    "trusted_base": ["clang 14 AST", "extractor tool/cdns-facts.cc"],
    "assumptions": ["the destructor's closing break is outside the counted calls, as the property statement says"],
}


def short(q):
    return q.replace("CDNS::", "")


def check(run):
    facts = run.facts
    E, is_prim_call, kbs = accounting.emitter_set(facts)
    subjects = [facts.functions[k] for k in E]
    dtor = facts.fn("CDNS::CdnsExporter::~CdnsExporter", rule="R10.1")
    subjects = sorted(subjects, key=lambda f: (f["file"], f["line"]))
    run.floor("R10.1", 250, "emitter call sites + returns in counted functions")
    nfn = 0
    for f in subjects:
        nfn += 1
        sites, rets, accs = accounting.analyse(f, facts, E, is_prim_call, kbs)
        fname = short(f["qn"]) + f.get("targs", "") + ("(%s)" % short(f["sig"][0]) if f["qn"].endswith("write_block") and f["sig"] else "")
        seen = {}
        for s in sites:
            if s.call.get("k") == "Bin":
                base = "%s:overwrite(%s)" % (fname, ir.show(s.call.get("lhs")))
            else:
                base = "%s:%s(%s)" % (fname, callee_name(s.call), ",".join(ir.show(a) for a in s.call.get("args", []))[:60])
            seen[base] = seen.get(base, 0) + 1
            key = base if seen[base] == 1 else "%s#%d" % (base, seen[base])
            run.ob("R10.1", key, s.status, f, s.call.get("l", 0), s.why, nontrivial=True)
        for i, (n, ok, why) in enumerate(rets):
            run.ob("R10.1", "%s:return#%d" % (fname, i), ok, f, n.get("l", 0), why)
        if len(accs) > 1:
            run.ob("R10.1", "%s:single-accumulator" % fname, False, f, f["line"],
                   "several accumulators %s: counts added to one are lost when another is returned" % sorted(a.split("#")[0][2:] for a in accs))
    if nfn < 28:
        run.broken_rule("R10.1", "only %d counted functions found (floor 28)" % nfn)
    run.info["counted_functions"] = nfn

    # destructor: the one sanctioned uncounted emission
    sites, rets, accs = accounting.analyse(dtor, facts, E, is_prim_call, kbs)
    ok = len(sites) == 1 and callee_name(sites[0].call) == "write_break"
    run.ob("R10.1", "~CdnsExporter:only-uncounted-emission-is-the-break", ok, dtor, dtor["line"],
           "destructor emits exactly the closing break (documented exception)" if ok else
           "destructor emits %s; only the single closing break may be uncounted" % [callee_name(s.call) for s in sites])
    # no void / non-size_t function other than the destructor calls an emitter and drops the count
    for f in facts.functions.values():
        if f["key"] in E or f is dtor or f.get("cls") == emission.ENC:
            continue
        if not f.get("file", "").startswith(facts.repo + "/src/") or "/src/bin/" in f.get("file", ""):
            continue
        if f.get("dtor") and f.get("cls"):
            from ..normalize import helper_type
            if helper_type(facts, f["cls"]):
                continue        # a guard's action: written out (and judged) where the guard object lives
        for c in ir.calls_in(f["body"]):
            cal = c.get("callee") or {}
            if is_prim_call(c) or kbs.get((cal.get("qn"), tuple(cal.get("sig", [])))) in E:
                run.ob("R10.1", "%s:uncounted-caller" % short(f["qn"]), False, f, c.get("l", 0),
                       "%s calls emitter %s but does not return a byte count" % (f["qn"], callee_name(c)))

    # R10.2 primitives (shared with C06)
    C06.check_primitive_returns(run, "R10.2")
    # the string copy loop is part of the count as soon as it reports one itself
    C06.check_write_string(run)
    for o in run.obs:
        if o.rule == "R06.5":
            o.rule = "R10.2"
    run.floors.pop("R06.5", None)

    # R10.3 single sink
    sink_callers = set()
    for f in facts.functions.values():
        for c in ir.calls_in(f["body"]):
            cal = c.get("callee") or {}
            if cal.get("qn") == "CDNS::BaseCborOutputWriter::write":
                sink_callers.add(f["qn"])
    # (a function of the encoder that hands [m_buffer, m_p) to the writer itself and resets the cursor straight afterwards is a flush
    # site of its own: C06.flush_shaped; such a site reaches the writer through another of its methods, e.g. a gathering write)
    for f in facts.functions.values():
        if f.get("cls") == "CDNS::CdnsEncoder" and f.get("body") is not None and f["qn"] != "CDNS::CdnsEncoder::flush_buffer" and \
                any("m_cos" in show(c.get("recv")) for c in ir.calls_in(f["body"]) if c.get("k") == "MCall" and c.get("recv") is not None):
            sink_callers.add(f["qn"])
    enc_callers = sorted(q for q in sink_callers if q.startswith("CDNS::CdnsEncoder::"))
    extra_sites = [q for q in enc_callers if q != "CDNS::CdnsEncoder::flush_buffer" and not q.endswith("::rotate_output") and
                   not all(C06.flush_shaped(g_) for g_ in facts.fns(q))]
    ok = "CDNS::CdnsEncoder::flush_buffer" in enc_callers and not extra_sites
    others = sorted(q for q in sink_callers if not q.startswith("CDNS::CdnsEncoder::"))
    bad = [q for q in others if not (q.startswith("CDNS::CborOutputWriter::") or q.startswith("CDNS::GzipCborOutputWriter::")
                                     or q.startswith("CDNS::XzCborOutputWriter::") or q.startswith("CDNS::BaseCborOutputWriter::"))]
    run.ob("R10.3", "sink:flush_buffer-only", ok and not bad, facts.fn("CDNS::CdnsEncoder::flush_buffer"), 0,
           "only CdnsEncoder::flush_buffer hands bytes to the output writer (writer-internal forwarding: %s)" % others if ok and not bad else
           "bytes reach the output writer from %s" % sorted(set(enc_callers) | set(bad)))
    run.floor("R10.3", 1, "sink")
