#!/bin/sh
# Applies each behaviour-preserving patch in <dir>/refactor*.diff to /repo in turn, runs every quick check with
# evidence writing off, and undoes it.  Any VIOLATION / ANALYSIS-BROKEN line that the unchanged tree does not
# produce is a false alarm of the machinery.
# usage: tool/try_neutral.sh <dir> [Cxx ...]
set -u
dir="$1"; shift
props="$*"
[ -z "$props" ] && props=all
cd /verif
for patch in "$dir"/refactor*.diff; do
  if ! git -C /repo diff --quiet; then echo "/repo working tree is not clean"; exit 3; fi
  git -C /repo apply "$patch" || { echo "$patch: does not apply"; continue; }
  out=$(VERIF_SEEDRUN=1 ./check $props 2>&1); rc=$?
  git -C /repo checkout -- .
  n=$(echo "$out" | grep -cE "^VIOLATION|^ANALYSIS-BROKEN")
  echo "== $patch: exit $rc, $n alarm lines"
  echo "$out" | grep -E "^VIOLATION|^ANALYSIS-BROKEN" -A3 | cut -c1-400 | head -40
done
