"""C02 Every finished output is one well-formed, schema-valid C-DNS document (structural clauses)."""
from .. import ir, emission, tables
from ..ir import (cond, f_and, f_not, f_or, conjuncts, path, path_str, unwrap, callee_name, callee_qn,
                  const_value, show, show_f, Env)
from ..facts import AnalysisBroken

META = {
    "level": "other",
    "rule_text": "Obligations are enumerated from the resolved AST of every serialiser (functions with a "
                 "CdnsEncoder& parameter returning size_t) and of CdnsExporter: R02.1 declared container count = "
                 "members emitted as a symbolic identity over presence atoms; R02.2 every serialiser used as one "
                 "item emits exactly one item under the caller's guards; R02.3/R02.4 header/break framing typestate "
                 "of CdnsExporter; R02.5 RFC 8618 mandatory members emitted unconditionally; R02.6 stored indices "
                 "come from the add_* of the table they index. R02.8 (R06.2 imported): every flush threshold covers the widest head its argument can need, so no integer is dropped silently. counter-reset is decided as 'm_blocks_written is 0 at every normal exit of rotate_output' (unconditional store, or a store under exactly m_blocks_written != 0), wherever the store stands relative to the encoder rotation. The closing-break decision in rotate_output reads the counter after the optional export and before anything clears it (the read may sit in the condition or in the definition of a flag the condition tests). R02.3/R02.4 accept a break decided before the export by `blocks written || (export && block not empty)` when `not empty` is the negation of write_block(block)'s own early-return test; framing is judged on the normal path (a guard's action while unwinding is R16.6's business). R02.6 also: an insertion function returns the table's answer on every path (a remembered index needs its flag / optional lowered wherever the table is replaced, or the memo copied with the table); an index member that may receive a remembered insertion result is undecided here (R01.11 / R12.9 ask that clear() forgets it).",
    "explanation": "Static analysis of the type-checked AST (libTooling extractor + rule engine). Decides the "
                   "structural clauses of C02 for all inputs/histories: count identities are compared symbolically "
                   "(all subsets of optional members at once), framing is an ordering/guard invariant of three "
                   "functions. Does not decide value-level schema validity (enum ranges).",
    "trusted_base": ["clang 14 AST and constant evaluation", "extractor tool/cdns-facts.cc",
                     "rfc8618_tables.json transcription of RFC 8618 Appendix A"],
    "assumptions": ["CdnsEncoder primitives emit exactly one CBOR head/item per call (decided by C06)",
                    "directly built blocks respect the documented precondition that stored indices come from the block's own add_* calls"],
}

EXPORTER = "CDNS::CdnsExporter"


def serialisers(facts):
    out = []
    for f in facts.functions.values():
        if emission.is_serialiser_sig(f) and f.get("cls") != emission.ENC and f.get("inrepo", True):
            out.append(f)
    return sorted(out, key=lambda f: (f["file"], f["line"]))


def short(qn):
    return qn.replace("CDNS::", "")


def strip_ids(p):
    return tuple(x.split("#")[0] for x in p) if p else p


def check(run):
    facts = run.facts
    sers = serialisers(facts)
    analyses = {}
    for f in sers:
        analyses[f["key"]] = emission.analyse_writer(f, facts)

    # ---------------- R02.1 declared count = members emitted
    run.floor("R02.1", 30, "container count identities in the 22 serialisers")
    nser = 0
    for f in sers:
        wa = analyses[f["key"]]
        nser += 1
        for (line, text) in wa.unrecognised:
            run.ob("R02.1", "%s:unrecognised@%s" % (short(f["qn"]), text[:40]), None, f, line, text)
        for (line, kind, declared, emitted, ok) in wa.count_checks:
            prob = [p for p in wa.problems if p[0] == "count" and p[1] == line]
            run.ob("R02.1", "%s:%s#%d" % (short(f["qn"]), kind.lower(),
                                          [c[0] for c in wa.count_checks].index(line)),
                   ok and not prob, f, line,
                   ("declared %s == emitted %s" % (declared, emitted)) if ok and not prob else
                   "; ".join(p[2] for p in prob) or ("declared %s but emitted %s" % (declared, emitted)),
                   detail={"declared": declared, "emitted": emitted})
        for p in wa.problems:
            if p[0] == "count" and not any(c[0] == p[1] for c in wa.count_checks):
                run.ob("R02.1", "%s:count@%s" % (short(f["qn"]), p[2][:50]), False, f, p[1], p[2])
            if p[0] == "pair":
                run.ob("R02.1", "%s:pair@%s" % (short(f["qn"]), p[2][:50]), False, f, p[1], p[2])
        # the function as a whole must be exactly one item (or zero under phi, see R02.2)
        if not wa.unrecognised:
            n = len(getattr(wa, "items", []))
            run.ob("R02.1", "%s:one-item" % short(f["qn"]), n == 1 and not any(p[0] == "oneitem" for p in wa.problems),
                   f, f["line"], "serialiser emits exactly one top-level data item" if n == 1 else
                   "serialiser emits %d top-level data items (a value position needs exactly one)" % n)
    if nser < 20:
        run.broken_rule("R02.1", "only %d serialisers found (floor 20)" % nser)
    run.info["serialisers"] = nser

    # ---------------- R02.2 every serialiser used as a value emits exactly one item at every use site
    run.floor("R02.2", 25, "struct-valued use sites")
    for f in sers + [x for x in facts.functions.values() if x.get("cls") == EXPORTER]:
        if f["key"] in analyses:
            wa = analyses[f["key"]]
            sites, env = wa.struct_sites, wa.env
        else:
            evs, env = emission.events_of(f, facts)
            sites = [e for e in evs if e.kind == "STRUCT"]
        for ev in sites:
            cal = ev.detail
            cands = [g for g in facts.fns(cal["qn"]) if g["sig"] == cal["sig"]]
            if len(cands) != 1:
                run.ob("R02.2", "%s->%s" % (short(f["qn"]), short(cal["qn"])), None, f, ev.line,
                       "callee body not found")
                continue
            cf = cands[0]
            cwa = analyses.get(cf["key"])
            recv = path(ev.call.get("recv")) if ev.call.get("k") == "MCall" else None
            if recv is not None:
                recv = env.resolve_ref_path(recv)
            rk = path_str(strip_ids(recv)) if recv else "-"
            key = "%s->%s[%s]" % (short(f["qn"]), short(cal["qn"]), rk)
            if cwa is None or cwa.unrecognised:
                run.ob("R02.2", key, None, f, ev.line, "callee %s could not be summarised" % cal["qn"])
                continue
            if cwa.top is None:
                run.ob("R02.2", key, False, f, ev.line, "callee %s does not emit exactly one item" % cal["qn"])
                continue
            # containers whose declared count is a parameter of the callee: compare per call site
            for pc in cwa.param_counts:
                argmap0 = {prm["n"]: a for prm, a in zip(cf["params"], ev.call.get("args", []))}
                a = argmap0.get(pc["param"])
                # the count is handed over by non-const reference; the callee does not write it (checked when the
                # callee was analysed), so the caller's definition of the variable is still the value in force
                ap = path(a) if a is not None else None
                lifted = None
                if ap and len(ap) == 1 and ap[0] in env.byref_only and ap[0] in env.assigned:
                    env.assigned.discard(ap[0])
                    lifted = ap[0]
                st = ir.sum_terms(a, env) if a is not None else None
                if lifted:
                    env.assigned.add(lifted)
                ckey = "%s->%s:%s(%s)" % (short(f["qn"]), short(cal["qn"]), pc["kind"].lower(), pc["param"])
                if st is None:
                    run.ob("R02.1", ckey, None, f, ev.line, "count argument %s is not a sum of presence indicators" % show(a))
                    continue
                dc, dinds = st
                dform = {}
                for x in dinds:
                    dform[x] = dform.get(x, 0) + pc["mult"]
                eform = {}
                for g, n_ in pc["eform"].items():
                    g2 = emission.substitute_formula(g, recv, argmap0, env)
                    eform[g2] = eform.get(g2, 0) + n_
                ok = dform == eform and dc * pc["mult"] == pc["econst"]
                run.ob("R02.1", ckey, ok, f, ev.line,
                       "count passed by the caller equals the members the callee emits (%d guarded members)" % len(eform) if ok else
                       "caller declares %s members but callee emits %s" % (
                           " + ".join(show_f(x) for x in dinds) or dc, " + ".join(show_f(x) for x in eform) or pc["econst"]))
            tg = cwa.top_guard
            if tg == ("T",):
                run.ob("R02.2", key, True, f, ev.line, "callee always emits exactly one item")
                continue
            argmap = {}
            for prm, a in zip(cf["params"], ev.call.get("args", [])):
                argmap[prm["n"]] = a
            need = emission.substitute_formula(tg, recv, argmap, env)
            ok = ir.implies(ev.guard, need)
            run.ob("R02.2", key, ok, f, ev.line,
                   ("caller guard %s implies callee emits (%s)" % (show_f(ev.guard), show_f(need))) if ok else
                   "%s emits nothing when !(%s) (early `return 0`), but the caller has already keyed/counted it under guard %s"
                   % (short(cal["qn"]), show_f(need), show_f(ev.guard)),
                   detail={"callee_zero_items_when": show_f(f_not(tg)), "caller_guard": show_f(ev.guard)})

    check_framing(run)
    from . import C06
    C06.check_always_emits(run, "R02.7")
    # a head that does not fit is dropped silently by write_int: the declared length of the enclosing map/array is then wrong
    C06.check_public_writes(run, rename={"R06.2": "R02.8", "R06.3": None})
    tables.check_mandatory(run, analyses, "R02.5")
    tables.check_index_provenance(run, "R02.6")


# --------------------------------------------------------------------------- R02.3 / R02.4

def leaf_list(fn, env):
    return [(st, g, loops) for st, g, loops in ir.guarded_statements(fn["body"], env)
            if st.get("k") not in ("IfCond", "LoopHead", "SwitchHead")]


def find_calls(fn, env, pred):
    """[(index, call, guard, stmt)] for calls satisfying pred in structured order."""
    out = []
    for i, (st, g, loops) in enumerate(leaf_list(fn, env)):
        for c in ir.calls_in(st):
            if pred(c):
                out.append((i, c, g, st, loops))
    return out


def member_writes(fn, member):
    """[(stmt index, kind, node, guard)] for writes to this.<member>."""
    env = Env(fn["body"])
    out = []
    for i, (st, g, loops) in enumerate(leaf_list(fn, env)):
        for n in ir.walk(st):
            k = n.get("k")
            if k == "Bin" and n.get("op", "").endswith("=") and n["op"] not in ("==", "!=", "<=", ">="):
                if path(n["lhs"]) == ("this", member):
                    out.append((i, n["op"], n, g))
            elif k == "Un" and n.get("op") in ("pre++", "post++", "pre--", "post--"):
                if path(n["e"]) == ("this", member):
                    out.append((i, n["op"], n, g))
    return out



def _may_write(facts, qn, member, seen=None):
    """True if a function named qn (any overload), or something it calls on `this`, writes this.<member>."""
    seen = seen if seen is not None else set()
    if qn in seen:
        return False
    seen.add(qn)
    for f in facts.fns(qn):
        if member_writes(f, member):
            return True
        for c in ir.calls_in(f["body"]):
            r = c.get("recv")
            if (r is None or path(r) == ("this",)) and callee_qn(c) and _may_write(facts, callee_qn(c), member, seen):
                return True
    return False


def reset_at_exit(fn, member, facts):
    """Decide `this.<member> == 0 at every normal exit of fn`.  Accepted shapes: a last write `member = 0` that is either
    unconditional or guarded by exactly `member != 0` (unsigned: `> 0`) - the untaken branch then already has the value 0 -
    with no later write (direct, or through a call on this object that may write the member) and no earlier return.
    Returns (verdict, line, text); verdict None = a shape the rule does not understand."""
    env = Env(fn["body"])
    leaves = leaf_list(fn, env)
    ws = member_writes(fn, member)
    resets = [w for w in ws if w[1] == "=" and const_value(w[2]["rhs"]) == 0]
    if not resets:
        return False, fn["line"], "%s is never set to 0" % member
    last = resets[-1]
    nz = ("nz", "this.%s" % member)
    if last[3] != ("T",) and conjuncts(last[3]) != [nz]:
        return False, last[2]["l"], "%s is reset only under %s: on the other paths it keeps its old value" % (member, show_f(last[3]))
    for w in ws:
        if w[0] > last[0] or (w[0] == last[0] and w is not last and w[2].get("l", 0) > last[2].get("l", 0)):
            return False, w[2]["l"], "%s is written again after the reset" % member
    for i, (st, g, loops) in enumerate(leaves):
        if st.get("k") == "Return" and i < last[0]:
            return False, st.get("l", fn["line"]), "a return precedes the reset of %s" % member
        if i > last[0]:
            for c in ir.calls_in(st):
                r = c.get("recv")
                if (r is None or path(r) == ("this",)) and callee_qn(c) and _may_write(facts, callee_qn(c), member):
                    return False, c.get("l", st.get("l", fn["line"])), "%s() may write %s after the reset" % (callee_qn(c).split("::")[-1], member)
        if loops and i == last[0]:
            return None, st.get("l", fn["line"]), "the reset of %s sits in a loop" % member
    return True, last[2]["l"], "%s is 0 at every normal exit (reset %s)" % (member, "unconditionally" if last[3] == ("T",) else "whenever it was non-zero")


CNT = ("this", "m_blocks_written")
F_HAS_BLOCKS = ("nz", "this.m_blocks_written")      # m_blocks_written > 0  (unsigned)


def anticipates_counter(rf, env, brk, exp, wb):
    """The closing break guarded by a local flag that was computed *before* the optional export as
           m_blocks_written > 0 || (export_current_block && <buffered block not empty>)
    is guarded by what `m_blocks_written > 0` will be after the export, provided <not empty> is exactly the negation of the
    test under which write_block(block) writes nothing, and the export is the `if (export_current_block) write_block()` that
    follows.  -> True / explanation of the mismatch / None (not this shape)."""
    g = [a for a in conjuncts(brk[2]) if a != ("T",)]
    if len(g) != 1 or g[0][0] != "nz" or not str(g[0][1]).startswith("l:"):
        return None
    d = env.defs.get(str(g[0][1]))
    if d is None:
        return None
    fd = ir.cond(d, env)
    if fd[0] != "or" or F_HAS_BLOCKS not in fd[1:]:
        return None
    rest = [x for x in fd[1:] if x != F_HAS_BLOCKS]
    if len(rest) != 1:
        return None
    cj = conjuncts(rest[0])
    flags = [a for a in cj if a[0] == "nz" and str(a[1]).startswith("p:")]
    other = [a for a in cj if a not in flags]
    if len(flags) != 1 or not other:
        return None
    # the export under that flag, after the definition and before the break
    order = {id(n_): i_ for i_, n_ in enumerate(ir.walk(rf["body"]))}
    dpos = min([order[id(x)] for x in ir.walk(d) if id(x) in order] or [0])
    exps = [e for e in exp if dpos < e[0] < brk[0] or (order.get(id(e[1]), 0) > dpos)]
    if len(exp) != 1 or [a for a in conjuncts(exp[0][2]) if a != ("T",)] != flags:
        return None
    # the test under which write_block(block) writes nothing, over the exporter's own block
    gate = None
    envw = Env(wb["body"])
    for s_ in ir.stmts(wb["body"]):
        if s_.get("k") == "If" and ir.always_leaves(s_.get("then")):
            gate = ir.cond(s_["cond"], envw)
            break
    if gate is None:
        return None

    def over_member(f):
        if isinstance(f, tuple):
            return tuple(over_member(x) for x in f)
        if isinstance(f, str):
            return f.replace("p:block.", "this.m_block.")
        return f
    want = conjuncts(f_not(over_member(gate)))
    if sorted(map(repr, want)) == sorted(map(repr, other)):
        return True
    return "the break is decided before the export from `%s`, but write_block(block) writes a block whenever %s: for a buffered block the two disagree on, " \
           "the output is closed without its break (or gets one although it holds no block)" % (" && ".join(show_f(a) for a in other), " && ".join(show_f(a) for a in want))


def check_framing(run):
    facts = run.facts
    wb = facts.fn("CDNS::CdnsExporter::write_block", sig=["CDNS::CdnsBlock &"], rule="R02.3")
    wh = facts.fn("CDNS::CdnsExporter::write_file_header", rule="R02.3")
    dt = ir.normal_path(facts.fn("CDNS::CdnsExporter::~CdnsExporter", rule="R02.3"))
    rots = [ir.normal_path(f) for f in facts.fns("CDNS::CdnsExporter::rotate_output")]
    wb, wh = ir.normal_path(wb), ir.normal_path(wh)
    if not rots:
        raise AnalysisBroken("R02.3", "no instantiation of CdnsExporter::rotate_output<T> in the TU set")
    run.floor("R02.3", 10, "framing obligations in CdnsExporter")

    # --- write_block(block)
    env = Env(wb["body"])
    hdr = find_calls(wb, env, lambda c: callee_qn(c) == "CDNS::CdnsExporter::write_file_header")
    blk = find_calls(wb, env, lambda c: callee_qn(c) == "CDNS::CdnsBlock::write")
    inc = [w for w in member_writes(wb, "m_blocks_written")]
    ok = len(blk) == 1
    run.ob("R02.3", "write_block:one-block-write", ok, wb, blk[0][1]["l"] if blk else wb["line"],
           "write_block(block) serialises the block exactly once" if ok else "expected exactly one block.write(m_encoder)")
    if blk:
        bi, bc, bg, _, _ = blk[0]
        # header: exactly one call, before block.write, under guard (m_blocks_written == 0)
        want = f_not(F_HAS_BLOCKS)
        ok = len(hdr) == 1 and hdr[0][0] < bi and ir.implies(hdr[0][2], want) and \
            [c for c in conjuncts(hdr[0][2]) if c not in conjuncts(bg)] == [want]
        run.ob("R02.3", "write_block:header-iff-first", ok, wb, hdr[0][1]["l"] if hdr else wb["line"],
               "file header written before the block exactly when m_blocks_written == 0" if ok else
               "write_file_header() must be called once, before block.write, exactly under m_blocks_written == 0 (guard found: %s)"
               % (show_f(hdr[0][2]) if hdr else "no call"))
        # counter incremented exactly once after block.write under the same guard
        ok = len(inc) == 1 and inc[0][1] in ("post++", "pre++", "+=") and inc[0][0] >= bi and inc[0][3] == bg
        if ok and inc[0][1] == "+=":
            ok = const_value(inc[0][2]["rhs"]) == 1
        run.ob("R02.3", "write_block:count-after-write", ok, wb, inc[0][2]["l"] if inc else wb["line"],
               "m_blocks_written incremented once after the block was serialised" if ok else
               "m_blocks_written must be incremented exactly once, after block.write(), on the same path")
        # empty block: return before any emission
        empty = ("nz", "p:block.get_item_count()")
        evs, _ = emission.events_of(wb, facts, env)
        gate_ok = all(any(ir.is_item_count_test(c) for c in conjuncts(e.guard)) for e in evs) and bool(evs)
        run.ob("R02.4", "write_block:empty-block-writes-nothing", gate_ok, wb, wb["line"],
               "every emission in write_block(block) is behind the get_item_count()==0 early return" if gate_ok else
               "an emission in write_block(block) is reachable for an empty block (no get_item_count() test in its guard)")

    # --- write_file_header: array(3) "C-DNS" preamble indef-array
    env = Env(wh["body"])
    evs, _ = emission.events_of(wh, facts, env)
    kinds = [e.kind for e in evs]
    ok = kinds == ["START_ARRAY", "ITEM", "STRUCT", "START_INDEF_ARRAY"] and all(e.guard == ("T",) and not e.loops for e in evs)
    why = "header = array(n) , type id , preamble , indefinite array start"
    if ok:
        n = const_value(evs[0].call["args"][0])
        s = unwrap(evs[1].call["args"][0]) if evs[1].call.get("args") else None
        strv = None
        for x in ir.walk(evs[1].call):
            if x.get("k") == "Str":
                strv = x.get("v")
        tid = tables.rfc()["file"]["type_id"]
        if n != tables.rfc()["file"]["array_len"]:
            ok, why = False, "file array declared with %s elements, RFC 8618 requires %d" % (n, tables.rfc()["file"]["array_len"])
        elif evs[1].detail != "TEXT" or strv != tid:
            ok, why = False, "file type id is %r (%s), RFC 8618 requires text \"%s\"" % (strv, evs[1].detail, tid)
        elif evs[2].detail["qn"] != "CDNS::FilePreamble::write" or path(evs[2].call.get("recv")) != ("this", "m_file_preamble"):
            ok, why = False, "second element is not m_file_preamble.write()"
    else:
        why = "header emission sequence is %s, expected array-start, text, preamble, indefinite-array-start" % kinds
    run.ob("R02.3", "write_file_header:shape", ok, wh, wh["line"], why)
    callers = [f for f in facts.functions.values()
               if any(callee_qn(c) == "CDNS::CdnsExporter::write_file_header" for c in ir.calls_in(f["body"]))]
    ok = [f["key"] for f in callers] == [wb["key"]]
    run.ob("R02.4", "write_file_header:only-from-write_block", ok, wh, wh["line"],
           "write_file_header is called only from write_block(block)" if ok else
           "write_file_header is also called from %s" % [f["qn"] for f in callers if f["key"] != wb["key"]])

    # --- rotate_output<T>
    for rf in rots:
        tag = "rotate_output%s" % rf.get("targs", "")
        env = Env(rf["body"])
        brk = find_calls(rf, env, lambda c: callee_qn(c) == "CDNS::CdnsEncoder::write_break")
        rot = find_calls(rf, env, lambda c: callee_qn(c) == "CDNS::CdnsEncoder::rotate_output")
        wr = member_writes(rf, "m_blocks_written")
        exp = find_calls(rf, env, lambda c: callee_qn(c) == "CDNS::CdnsExporter::write_block")
        ok = len(brk) == 1 and conjuncts(brk[0][2]) == [F_HAS_BLOCKS]
        anticipated = None
        why_brk = "write_break() must be guarded by exactly m_blocks_written > 0 (found %s)" % (show_f(brk[0][2]) if brk else "no call")
        if not ok and len(brk) == 1:
            anticipated = anticipates_counter(rf, env, brk[0], exp, wb)
            if anticipated is True:
                ok = True
            elif isinstance(anticipated, str):
                why_brk = anticipated
        run.ob("R02.3", "%s:break-iff-blocks" % tag, ok, rf, brk[0][1]["l"] if brk else rf["line"],
               ("closing break written exactly when the output holds blocks" if anticipated is not True else
                "the break is decided up front by `blocks written || (export && block not empty)`, which is what m_blocks_written > 0 will be after the export") if ok else why_brk)
        ok = len(rot) == 1 and rot[0][2] == ("T",) and (not brk or brk[0][0] < rot[0][0]) and all(e[0] < rot[0][0] for e in exp)
        run.ob("R02.3", "%s:order" % tag, ok, rf, rot[0][1]["l"] if rot else rf["line"],
               "export, break, then encoder rotation, unconditionally" if ok else
               "m_encoder.rotate_output(out) must run unconditionally after the optional export and the break")
        ok, ln, why = reset_at_exit(rf, "m_blocks_written", facts)
        if ok:
            # where the break is decided: the read of the counter (in the condition itself or in the definition of the flag the
            # condition tests).  It has to come after the optional export - which may write the first block of this output -
            # and before anything clears the counter.
            order = {id(n_): i_ for i_, n_ in enumerate(ir.walk(rf["body"]))}
            lhs_ids = set(id(n_["lhs"]) for n_ in ir.walk(rf["body"]) if n_.get("k") == "Bin" and n_.get("op", "").endswith("=") and
                          n_["op"] not in ("==", "!=", "<=", ">=") and isinstance(n_.get("lhs"), dict))
            reads = [n_ for n_ in ir.walk(rf["body"]) if n_.get("k") == "Member" and n_.get("n") == "m_blocks_written" and id(n_) not in lhs_ids and
                     not any(p_.get("k") == "Un" and p_.get("op") in ("pre++", "post++") for p_ in [n_])]
            stores = [n_ for n_ in ir.walk(rf["body"]) if n_.get("k") == "Bin" and n_.get("op") == "=" and path(n_.get("lhs")) == ("this", "m_blocks_written")]
            exports = [e[1] for e in exp]
            if not reads:
                ok, ln, why = None, rf["line"], "no read of m_blocks_written found in rotate_output"
            else:
                rd = min(order[id(n_)] for n_ in reads)
                if any(order[id(s_)] < rd for s_ in stores):
                    first = [s_ for s_ in stores if order[id(s_)] < rd][0]
                    ok, ln, why = False, first.get("l", rf["line"]), "m_blocks_written is overwritten before the closing break is decided"
                elif any(order[id(e_)] > rd for e_ in exports) and anticipated is True:
                    pass        # decided before the export, with the export's own effect on the counter taken into account
                elif any(order[id(e_)] > rd for e_ in exports):
                    ok, ln, why = False, reads[0].get("l", rf["line"]), "whether the output needs its closing break is decided before the buffered block is exported: " \
                        "when that export writes the first block of this output, the break is missing and the closed file is truncated CBOR"
        run.ob("R02.3", "%s:counter-reset" % tag, ok, rf, ln, why)

    # --- destructor: break iff blocks
    env = Env(dt["body"])
    brk = find_calls(dt, env, lambda c: callee_qn(c) == "CDNS::CdnsEncoder::write_break")
    ok = len(brk) == 1 and conjuncts(brk[0][2]) == [F_HAS_BLOCKS]
    run.ob("R02.3", "~CdnsExporter:break-iff-blocks", ok, dt, brk[0][1]["l"] if brk else dt["line"],
           "destructor writes the closing break exactly when the output holds blocks" if ok else
           "destructor must write the break under exactly m_blocks_written > 0 (found %s)" % (show_f(brk[0][2]) if brk else "no call"))

    # --- who may write the counter / who may emit
    allowed_w = {wb["key"]} | {f["key"] for f in rots}
    for f in facts.functions.values():
        if f.get("cls") != EXPORTER:
            continue
        ws = member_writes(f, "m_blocks_written")
        if f["key"] == dt["key"]:
            # the object is going away: clearing the counter there changes nothing, counting would
            ws = [w for w in ws if not (w[1] == "=" and const_value(w[2]["rhs"]) == 0)]
        if ws and f["key"] not in allowed_w:
            run.ob("R02.3", "counter-writer:%s" % short(f["qn"]), False, f, ws[0][2]["l"],
                   "m_blocks_written is written outside write_block(block)/rotate_output")
    run.ob("R02.3", "counter-writers", True, wb, wb["line"], "m_blocks_written written only by write_block(block) and rotate_output<T>", nontrivial=False)
    n_emit = 0
    for f in facts.functions.values():
        if f.get("cls") != EXPORTER:
            continue
        f = ir.normal_path(f)
        env = Env(f["body"])
        evs, _ = emission.events_of(f, facts, env)
        brk_ok = {}
        if f["qn"].endswith("::rotate_output"):
            # a break guarded by the anticipated counter (see anticipates_counter) is guarded by the counter
            exp_ = find_calls(f, env, lambda c: callee_qn(c) == "CDNS::CdnsExporter::write_block")
            for b_ in find_calls(f, env, lambda c: callee_qn(c) == "CDNS::CdnsEncoder::write_break"):
                if anticipates_counter(f, env, b_, exp_, wb) is True:
                    brk_ok[b_[1].get("l")] = True
        for e in evs:
            if e.kind == "STRUCT" and e.detail["qn"] not in ("CDNS::CdnsBlock::write", "CDNS::FilePreamble::write"):
                continue
            n_emit += 1
            if f["key"] in (wb["key"], wh["key"]):
                continue
            ok = F_HAS_BLOCKS in conjuncts(e.guard) or (e.kind == "BREAK" and brk_ok.get(e.line, False))
            run.ob("R02.4", "%s:%s@guard" % (short(f["qn"]) + f.get("targs", ""), e.kind), ok, f, e.line,
                   "emission guarded by m_blocks_written > 0" if ok else
                   "encoder emission outside write_block(block) without the m_blocks_written > 0 guard: an output with no block would receive bytes")
    run.floor("R02.4", 4, "exporter emission sites")
    run.info["exporter_emission_sites"] = n_emit
