"""Tiny concrete evaluator over the JSON expression tree (integers, enums, booleans).
Used to tabulate finite domains (additional-information 0..31, comparison cells) — not to run code."""
from . import ir
from .ir import unwrap, path, path_str

BITS = {"bool": (1, False), "unsigned char": (8, False), "signed char": (8, True), "char": (8, True),
        "unsigned short": (16, False), "short": (16, True), "unsigned int": (32, False), "int": (32, True),
        "unsigned long": (64, False), "long": (64, True), "unsigned long long": (64, False), "long long": (64, True)}


class Unknown(Exception):
    pass


def wrap(v, t, enums=None):
    if t in BITS:
        bits, signed = BITS[t]
        if t == "bool":
            return 1 if v else 0
        v &= (1 << bits) - 1
        if signed and v >= 1 << (bits - 1):
            v -= 1 << bits
        return v
    if enums and t in enums:
        return wrap(v, enums[t]["underlying"])
    return v


def ev(e, env, enums=None):
    """env: name or path-string -> int. Raises Unknown."""
    if not isinstance(e, dict):
        raise Unknown("?")
    k = e.get("k")
    if k == "Lit":
        v = e.get("v")
        if isinstance(v, bool):
            return 1 if v else 0
        if isinstance(v, int):
            return v
        if isinstance(v, str) and v.isdigit():
            return int(v)
        raise Unknown("lit")
    if k == "Ref":
        if e.get("d") == "enumconst":
            return e["val"]
        p = path(e)
        key = path_str(p) if p else e.get("n")
        if key in env:
            return env[key]
        if e.get("n") in env:
            return env[e["n"]]
        if "cv" in e:
            return int(e["cv"])
        raise Unknown("ref %s" % e.get("n"))
    if k == "Member":
        p = path(e)
        key = path_str(p) if p else None
        if key in env:
            return env[key]
        raise Unknown("member %s" % key)
    if k == "Index":
        key = ir.show(e)
        if key in env:
            return env[key]
        # an element of a constant array whose values the caller supplied (env["@arrays"][qualified name] = [ints])
        b = ir.unwrap_all_casts(e.get("base"))
        arrs = env.get("@arrays") or {}
        if isinstance(b, dict) and b.get("k") == "Ref" and ((b.get("qn") or b.get("n")) in arrs or b.get("n") in arrs):
            vals = arrs.get(b.get("qn") or b.get("n")) or arrs[b.get("n")]
            i = ev(unwrap(e["idx"]), env, enums)
            if 0 <= i < len(vals):
                return vals[i]
            raise Unknown("element %d of a %d-element constant array" % (i, len(vals)))
        raise Unknown("element %s" % key)
    if k == "Call" and (e.get("callee") or {}).get("builtin") and len(e.get("args", [])) == 1:
        nm = ir.callee_name(e) or ""
        bits = 64 if nm.endswith("ll") or nm.endswith("l") else 32
        if nm.startswith("__builtin_clz") or nm.startswith("__builtin_ctz") or nm.startswith("__builtin_popcount"):
            v = ev(unwrap(e["args"][0]), env, enums) & ((1 << bits) - 1)
            if nm.startswith("__builtin_popcount"):
                return bin(v).count("1")
            if v == 0:
                raise Unknown("%s(0) is undefined" % nm)
            return bits - v.bit_length() if nm.startswith("__builtin_clz") else (v & -v).bit_length() - 1
    if k == "Cast":
        v = ev(e["e"], env, enums)
        return wrap(v, e.get("t"), enums)
    if k == "Un":
        op = e["op"]
        v = ev(e["e"], env, enums)
        if op == "!":
            return 0 if v else 1
        if op == "-":
            return wrap(-v, e.get("t"), enums)
        if op == "~":
            return wrap(~v, e.get("t"), enums)
        if op == "+":
            return v
        raise Unknown("un " + op)
    if k == "Bin":
        op = e["op"]
        if op == "&&":
            return 1 if (ev(e["lhs"], env, enums) and ev(e["rhs"], env, enums)) else 0
        if op == "||":
            return 1 if (ev(e["lhs"], env, enums) or ev(e["rhs"], env, enums)) else 0
        a = ev(e["lhs"], env, enums)
        b = ev(e["rhs"], env, enums)
        t = e.get("t")
        if op == "+":
            return wrap(a + b, t, enums)
        if op == "-":
            return wrap(a - b, t, enums)
        if op == "*":
            return wrap(a * b, t, enums)
        if op == "/":
            if b == 0:
                raise Unknown("div0")
            return wrap(int(a / b), t, enums)
        if op == "%":
            if b == 0:
                raise Unknown("div0")
            return wrap(a - int(a / b) * b, t, enums)
        if op == "<<":
            return wrap(a << b, t, enums)
        if op == ">>":
            return wrap(a >> b, t, enums)
        if op == "&":
            return wrap(a & b, t, enums)
        if op == "|":
            return wrap(a | b, t, enums)
        if op == "^":
            return wrap(a ^ b, t, enums)
        if op == "==":
            return 1 if a == b else 0
        if op == "!=":
            return 1 if a != b else 0
        if op == "<":
            return 1 if a < b else 0
        if op == "<=":
            return 1 if a <= b else 0
        if op == ">":
            return 1 if a > b else 0
        if op == ">=":
            return 1 if a >= b else 0
        raise Unknown("bin " + op)
    if k == "Cond":
        return ev(e["a"], env, enums) if ev(e["c"], env, enums) else ev(e["b"], env, enums)
    if k == "OpCall" and e.get("op") in ("<", "<=", ">", ">=", "==", "!=") and len(e.get("args", [])) == 2:
        # std::tie(a, b) < std::tie(c, d): tuples compare lexicographically ([tuple.rel])
        def tup(x):
            x = ir.unwrap_all_casts(unwrap(x))
            if isinstance(x, dict) and x.get("k") == "Call" and (ir.callee_qn(x) or "").split("<")[0] in ("std::tie", "std::make_tuple", "std::forward_as_tuple"):
                return [ev(unwrap(a), env, enums) for a in x.get("args", [])]
            return None
        a, b = tup(e["args"][0]), tup(e["args"][1])
        if a is not None and b is not None and len(a) == len(b):
            op = e["op"]
            return 1 if {"<": a < b, "<=": a <= b, ">": a > b, ">=": a >= b, "==": a == b, "!=": a != b}[op] else 0
        raise Unknown("operator %s on %s" % (e.get("op"), (e.get("callee") or {}).get("qn")))
    if k in ("DefaultArg",):
        return ev(e["e"], env, enums)
    if "cv" in e:
        return int(e["cv"])
    raise Unknown(k)


def step(u, env, enums=None):
    """Apply the effect of one expression statement on the integer locals in env: ++/--, =, op= on a local.
    Calls and statements that touch no local in env are skipped; anything else on a tracked local raises Unknown."""
    if not isinstance(u, dict):
        return
    k = u.get("k")
    if k == "Un" and u.get("op") in ("pre++", "post++", "pre--", "post--"):
        p = path(u.get("e"))
        key = path_str(p) if p else None
        if key in env:
            env[key] = wrap(env[key] + (1 if "++" in u["op"] else -1), unwrap(u["e"]).get("t"), enums)
        return
    if k == "Bin" and u.get("op", "").endswith("=") and u["op"] not in ("==", "!=", "<=", ">="):
        p = path(u.get("lhs"))
        key = path_str(p) if p else None
        if key in env or (key and key.startswith("l:") and u["op"] == "="):
            if u["op"] == "=":
                try:
                    env[key] = wrap(ev(unwrap(u["rhs"]), env, enums), unwrap(u["lhs"]).get("t"), enums)
                except Unknown:
                    env.pop(key, None)
            else:
                fake = {"k": "Bin", "op": u["op"][:-1], "lhs": u["lhs"], "rhs": u["rhs"], "t": u.get("comptype") or u.get("t")}
                env[key] = wrap(ev(fake, env, enums), unwrap(u["lhs"]).get("t"), enums)
        return
    if k == "Decl":
        for v in u.get("vars", []):
            if v.get("init") is not None and "n" in v:
                try:
                    env["l:%s#%s" % (v["n"], v["id"])] = ev(unwrap(v["init"]), env, enums)
                except Unknown:
                    pass
        return
    # any nested modification of a tracked local inside a larger expression is not understood
    for n in ir.walk(u):
        if n is u:
            continue
        if n.get("k") == "Un" and n.get("op") in ("pre++", "post++", "pre--", "post--"):
            p = path(n.get("e"))
            if p and path_str(p) in env:
                raise Unknown("nested update of %s" % path_str(p))


def run_straightline(stmts, env, enums=None, stop_at=None):
    """Interpret a statement list over env following only evaluable branches.
    Returns ('throw', node) | ('return', node) | ('reached', node) | ('end', None) | ('unknown', node)."""
    for s in stmts:
        k = s.get("k")
        if stop_at is not None and any(x is stop_at for x in ir.walk(s)) and k not in ("If", "Block", "Switch"):
            return ("reached", s)
        if k == "Block":
            r = run_straightline(s.get("s", []), env, enums, stop_at)
            if r[0] != "end":
                return r
        elif k == "If":
            try:
                c = ev(unwrap(s["cond"]), env, enums)
            except Unknown:
                if stop_at is not None and any(x is stop_at for x in ir.walk(s["cond"])):
                    return ("reached", s)
                return ("unknown", s)
            br = s["then"] if c else s.get("else")
            if br is not None:
                r = run_straightline(ir.stmts(br), env, enums, stop_at)
                if r[0] != "end":
                    return r
        elif k == "Switch":
            try:
                on = ev(unwrap(s["cond"]), env, enums)
            except Unknown:
                return ("unknown", s)
            body = ir.stmts(s.get("body"))
            start = default = None
            for i, x in enumerate(body):
                y = x
                while isinstance(y, dict) and y.get("k") in ("Case", "Default"):
                    if y["k"] == "Case":
                        try:
                            cvl = ev(unwrap(y["val"]), env, enums) if y.get("val") is not None else None
                        except Unknown:
                            cvl = y["val"].get("cv") if isinstance(y.get("val"), dict) else None
                        if cvl == on and start is None:
                            start = i
                    elif default is None:
                        default = i
                    y = y.get("sub")
            if start is None:
                start = default
            if start is not None:
                seq = []
                for x in body[start:]:
                    y = x
                    while isinstance(y, dict) and y.get("k") in ("Case", "Default"):
                        y = y.get("sub")
                    if y is not None:
                        seq.append(y)
                # statements up to the first break at this level
                cut = []
                for y in seq:
                    if y.get("k") == "Break":
                        break
                    cut.append(y)
                r = run_straightline(cut, env, enums, stop_at)
                if r[0] != "end":
                    return r
        elif k == "Throw":
            return ("throw", s)
        elif k == "Return":
            if stop_at is not None and any(x is stop_at for x in ir.walk(s)):
                return ("reached", s)
            return ("return", s)
        elif k == "Decl":
            for v in s.get("vars", []):
                if v.get("init") is not None and "n" in v:
                    try:
                        env["l:%s#%s" % (v["n"], v["id"])] = ev(unwrap(v["init"]), env, enums)
                    except Unknown:
                        pass
        else:
            u = unwrap(s)
            if isinstance(u, dict) and u.get("k") == "Throw":
                return ("throw", s)
            # plain stores `x = e;` update the environment (an unevaluable right-hand side forgets the old value)
            lhs = rhs = None
            if isinstance(u, dict) and u.get("k") == "Bin" and u.get("op", "").endswith("=") and u["op"] not in ("==", "!=", "<=", ">="):
                lhs, rhs = u["lhs"], (u["rhs"] if u["op"] == "=" else None)
            elif isinstance(u, dict) and u.get("k") == "Un" and u.get("op") in ("pre++", "post++", "pre--", "post--"):
                lhs = u["e"]
            if lhs is not None:
                lp = ir.path(lhs)
                if lp is not None:
                    key = ir.path_str(lp)
                    try:
                        if rhs is None:
                            raise Unknown("compound")
                        env[key] = ev(unwrap(rhs), env, enums)
                    except Unknown:
                        env.pop(key, None)
    return ("end", None)
