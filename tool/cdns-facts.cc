// cdns-facts: libTooling fact extractor for the c-dns static verification framework.
//
// One process per translation unit.  Emits one JSON document with
//   functions : every function definition located under one of the --root prefixes
//               (template instantiations included, dependent patterns skipped), body as a
//               structured tree with resolved callees, member paths, constant values
//   records   : complete class definitions (fields with layout, bases, special members)
//   enums     : enumerators with values
//   vars      : variables with static/thread storage duration
//   hashinst  : instantiations of CDNS::hash_value<T> with uniqueObjectRepresentations(T)
//
// Usage: cdns-facts --out=<file.json> --root=/repo [--root=...] <source> -- <compile flags>

#include "clang/AST/ASTConsumer.h"
#include "clang/AST/ASTContext.h"
#include "clang/AST/RecursiveASTVisitor.h"
#include "clang/AST/RecordLayout.h"
#include "clang/AST/ExprCXX.h"
#include "clang/AST/StmtCXX.h"
#include "clang/AST/DeclTemplate.h"
#include "clang/Basic/SourceManager.h"
#include "clang/Frontend/CompilerInstance.h"
#include "clang/Frontend/FrontendAction.h"
#include "clang/Tooling/CommonOptionsParser.h"
#include "clang/Tooling/Tooling.h"
#include "llvm/Support/CommandLine.h"
#include "llvm/Support/JSON.h"
#include "llvm/Support/raw_ostream.h"
#include <map>
#include <set>
#include <string>
#include <vector>

using namespace clang;
using namespace clang::tooling;
namespace json = llvm::json;

static llvm::cl::OptionCategory Cat("cdns-facts options");
static llvm::cl::opt<std::string> OutFile("out", llvm::cl::desc("output json"), llvm::cl::Required,
                                          llvm::cl::cat(Cat));
static llvm::cl::list<std::string> Roots("root", llvm::cl::desc("path prefix in scope"),
                                         llvm::cl::cat(Cat));

namespace {

class Extractor {
public:
  explicit Extractor(ASTContext &C) : Ctx(C), SM(C.getSourceManager()), PP(C.getLangOpts()) {
    PP.SuppressTagKeyword = true;
    PP.FullyQualifiedName = true;
    PP.Bool = true;
    PP.SuppressUnwrittenScope = true;
    PP.AnonymousTagLocations = false;
  }

  ASTContext &Ctx;
  SourceManager &SM;
  PrintingPolicy PP;
  json::Array Functions, Records, Enums, Vars, HashInst;
  std::set<std::string> SeenFn, SeenRec, SeenEnum, SeenVar, SeenHash;
  std::map<const Decl *, int> LocalIds;
  int NextLocal = 0;

  // ---------------------------------------------------------------- helpers
  std::string fileOf(SourceLocation L) {
    if (L.isInvalid()) return "";
    SourceLocation E = SM.getExpansionLoc(L);
    PresumedLoc P = SM.getPresumedLoc(E);
    if (P.isInvalid()) return "";
    std::string F = P.getFilename();
    // normalise /repo/./src/x -> /repo/src/x
    std::string out;
    size_t i = 0;
    while (i < F.size()) {
      if (F.compare(i, 3, "/./") == 0) { out += '/'; i += 3; continue; }
      out += F[i++];
    }
    // resolve "/dir/../" segments produced by #include "../cdns.h"
    for (;;) {
      size_t p = out.find("/../");
      if (p == std::string::npos || p == 0) break;
      size_t q = out.rfind('/', p - 1);
      if (q == std::string::npos) break;
      out = out.substr(0, q) + out.substr(p + 3);
    }
    return out;
  }
  unsigned lineOf(SourceLocation L) {
    if (L.isInvalid()) return 0;
    return SM.getExpansionLineNumber(L);
  }
  bool inScope(SourceLocation L) {
    std::string F = fileOf(L);
    if (F.empty()) return false;
    for (auto &R : Roots)
      if (F.compare(0, R.size(), R) == 0) return true;
    return false;
  }
  std::string ty(QualType T) {
    if (T.isNull()) return "";
    return T.getCanonicalType().getAsString(PP);
  }
  std::string tyWritten(QualType T) {
    if (T.isNull()) return "";
    return T.getAsString(PP);
  }
  std::string qn(const NamedDecl *D) {
    if (!D) return "";
    std::string S;
    llvm::raw_string_ostream OS(S);
    D->printQualifiedName(OS, PP);
    OS.flush();
    return S;
  }
  std::string targs(const FunctionDecl *FD) {
    std::string S;
    if (const TemplateArgumentList *TAL = FD->getTemplateSpecializationArgs()) {
      llvm::raw_string_ostream OS(S);
      OS << "<";
      for (unsigned i = 0; i < TAL->size(); ++i) {
        if (i) OS << ", ";
        const TemplateArgument &A = TAL->get(i);
        if (A.getKind() == TemplateArgument::Type)
          OS << ty(A.getAsType());
        else
          A.print(PP, OS, true);
      }
      OS << ">";
      OS.flush();
    }
    return S;
  }
  std::string recName(const RecordDecl *RD) {
    if (!RD) return "";
    if (const auto *CRD = dyn_cast<CXXRecordDecl>(RD))
      if (CRD->isLambda()) return qn(RD);
    return ty(QualType(RD->getTypeForDecl(), 0));
  }
  int localId(const Decl *D) {
    auto It = LocalIds.find(D);
    if (It != LocalIds.end()) return It->second;
    int id = NextLocal++;
    LocalIds[D] = id;
    return id;
  }
  bool derivesFromStdException(QualType T) {
    T = T.getNonReferenceType().getCanonicalType();
    const CXXRecordDecl *RD = T->getAsCXXRecordDecl();
    if (!RD || !RD->hasDefinition()) return false;
    RD = RD->getDefinition();
    if (qn(RD) == "std::exception") return true;
    for (const auto &B : RD->bases())
      if (derivesFromStdException(B.getType())) return true;
    return false;
  }

  json::Object calleeInfo(const FunctionDecl *FD) {
    json::Object O;
    if (!FD) return O;
    O["qn"] = qn(FD);
    std::string TA = targs(FD);
    if (!TA.empty()) O["targs"] = TA;
    json::Array Sig;
    for (const ParmVarDecl *P : FD->parameters()) Sig.push_back(ty(P->getType()));
    O["sig"] = std::move(Sig);
    O["ret"] = ty(FD->getReturnType());
    if (const auto *MD = dyn_cast<CXXMethodDecl>(FD)) {
      O["cls"] = recName(MD->getParent());
      if (MD->isVirtual()) O["virtual"] = true;
      if (MD->isStatic()) O["static"] = true;
      if (isa<CXXConstructorDecl>(MD)) O["ctor"] = true;
      if (isa<CXXDestructorDecl>(MD)) O["dtor"] = true;
      if (isa<CXXConversionDecl>(MD)) O["conv"] = true;
      if (MD->isConst()) O["const"] = true;
      O["access"] = (int64_t)MD->getAccess();
      if (MD->getParent()->isLambda()) O["lambda"] = true;
    }
    if (!FD->isExternallyVisible()) O["internal"] = true;
    // where is it declared (pattern location for instantiations)
    const FunctionDecl *Loc = FD;
    if (const FunctionDecl *Pat = FD->getTemplateInstantiationPattern()) Loc = Pat;
    O["inrepo"] = inScope(Loc->getLocation());
    if (FD->isExternC() || FD->getLanguageLinkage() == CLanguageLinkage) O["externc"] = true;
    if (FD->getBuiltinID()) O["builtin"] = true;
    return O;
  }

  void attachConst(json::Object &O, const Expr *E) {
    if (E->isValueDependent() || E->isTypeDependent()) return;
    QualType T = E->getType();
    if (T.isNull()) return;
    if (!(T->isIntegralOrEnumerationType())) return;
    if (!E->isPRValue() && !isa<DeclRefExpr>(E)) return;
    Expr::EvalResult R;
    if (E->EvaluateAsInt(R, Ctx, Expr::SE_NoSideEffects) && R.Val.isInt()) {
      llvm::APSInt V = R.Val.getInt();
      if (V.isSigned())
        O["cv"] = (int64_t)V.getSExtValue();
      else if (V.getActiveBits() <= 63)
        O["cv"] = (int64_t)V.getZExtValue();
      else
        O["cv"] = llvm::toString(V, 10);
    }
  }

  // ---------------------------------------------------------------- statements / expressions
  json::Value ser(const Stmt *S) {
    if (!S) return nullptr;
    if (const auto *E = dyn_cast<Expr>(S)) return serExpr(E);
    json::Object O;
    O["l"] = (int64_t)lineOf(S->getBeginLoc());
    if (const auto *CS = dyn_cast<CompoundStmt>(S)) {
      O["k"] = "Block";
      json::Array A;
      for (const Stmt *C : CS->body()) A.push_back(ser(C));
      O["s"] = std::move(A);
    } else if (const auto *IS = dyn_cast<IfStmt>(S)) {
      O["k"] = "If";
      if (IS->getInit()) O["init"] = ser(IS->getInit());
      if (IS->getConditionVariable()) O["condvar"] = serVar(IS->getConditionVariable());
      O["cond"] = ser(IS->getCond());
      O["then"] = ser(IS->getThen());
      if (IS->getElse()) O["else"] = ser(IS->getElse());
    } else if (const auto *WS = dyn_cast<WhileStmt>(S)) {
      O["k"] = "While";
      O["cond"] = ser(WS->getCond());
      O["body"] = ser(WS->getBody());
    } else if (const auto *DS = dyn_cast<DoStmt>(S)) {
      O["k"] = "Do";
      O["cond"] = ser(DS->getCond());
      O["body"] = ser(DS->getBody());
    } else if (const auto *FS = dyn_cast<ForStmt>(S)) {
      O["k"] = "For";
      if (FS->getInit()) O["init"] = ser(FS->getInit());
      if (FS->getCond()) O["cond"] = ser(FS->getCond());
      if (FS->getInc()) O["inc"] = ser(FS->getInc());
      O["body"] = ser(FS->getBody());
    } else if (const auto *RF = dyn_cast<CXXForRangeStmt>(S)) {
      O["k"] = "RangeFor";
      O["var"] = serVar(RF->getLoopVariable(), /*withInit=*/false);
      O["range"] = ser(RF->getRangeInit());
      O["body"] = ser(RF->getBody());
    } else if (const auto *SS = dyn_cast<SwitchStmt>(S)) {
      O["k"] = "Switch";
      O["cond"] = ser(SS->getCond());
      O["body"] = ser(SS->getBody());
    } else if (const auto *CA = dyn_cast<CaseStmt>(S)) {
      O["k"] = "Case";
      O["val"] = ser(CA->getLHS());
      if (CA->getRHS()) O["rhs"] = ser(CA->getRHS());
      O["sub"] = ser(CA->getSubStmt());
    } else if (const auto *DF = dyn_cast<DefaultStmt>(S)) {
      O["k"] = "Default";
      O["sub"] = ser(DF->getSubStmt());
    } else if (const auto *RS = dyn_cast<ReturnStmt>(S)) {
      O["k"] = "Return";
      if (RS->getRetValue()) O["e"] = ser(RS->getRetValue());
    } else if (isa<BreakStmt>(S)) {
      O["k"] = "Break";
    } else if (isa<ContinueStmt>(S)) {
      O["k"] = "Continue";
    } else if (isa<NullStmt>(S)) {
      O["k"] = "Null";
    } else if (const auto *DS2 = dyn_cast<DeclStmt>(S)) {
      O["k"] = "Decl";
      json::Array A;
      for (const Decl *D : DS2->decls()) {
        if (const auto *VD = dyn_cast<VarDecl>(D))
          A.push_back(serVar(VD));
        else {
          json::Object X;
          X["other"] = D->getDeclKindName();
          A.push_back(std::move(X));
        }
      }
      O["vars"] = std::move(A);
    } else if (const auto *TS = dyn_cast<CXXTryStmt>(S)) {
      O["k"] = "Try";
      O["body"] = ser(TS->getTryBlock());
      json::Array H;
      for (unsigned i = 0; i < TS->getNumHandlers(); ++i) {
        const CXXCatchStmt *CH = TS->getHandler(i);
        json::Object HO;
        HO["l"] = (int64_t)lineOf(CH->getBeginLoc());
        if (CH->getExceptionDecl()) {
          HO["t"] = ty(CH->getCaughtType());
          HO["var"] = CH->getExceptionDecl()->getNameAsString();
          HO["vid"] = localId(CH->getExceptionDecl());
        } else
          HO["t"] = "...";
        HO["body"] = ser(CH->getHandlerBlock());
        H.push_back(std::move(HO));
      }
      O["handlers"] = std::move(H);
    } else if (isa<GotoStmt>(S) || isa<LabelStmt>(S) || isa<IndirectGotoStmt>(S) ||
               isa<AsmStmt>(S)) {
      O["k"] = "Opaque";
      O["cls"] = S->getStmtClassName();
    } else {
      O["k"] = "OtherStmt";
      O["cls"] = S->getStmtClassName();
      json::Array A;
      for (const Stmt *C : S->children()) A.push_back(ser(C));
      O["c"] = std::move(A);
    }
    return std::move(O);
  }

  json::Value serVar(const VarDecl *VD, bool withInit = true) {
    json::Object V;
    V["n"] = VD->getNameAsString();
    V["id"] = localId(VD);
    V["t"] = ty(VD->getType());
    V["tw"] = tyWritten(VD->getType());
    V["l"] = (int64_t)lineOf(VD->getLocation());
    if (VD->getType()->isReferenceType()) V["ref"] = true;
    if (VD->isStaticLocal()) V["static"] = true;
    if (VD->getTLSKind() != VarDecl::TLS_None) V["tls"] = true;
    if (VD->getType().isConstQualified()) V["const"] = true;
    if (const auto *VAT = dyn_cast<VariableArrayType>(VD->getType().getTypePtr())) {
      if (VAT->getSizeExpr()) V["vla"] = ser(VAT->getSizeExpr());
      else V["vla"] = nullptr;
    } else if (const ArrayType *AT = VD->getType()->getAsArrayTypeUnsafe()) {
      if (const auto *VAT2 = dyn_cast<VariableArrayType>(AT)) {
        if (VAT2->getSizeExpr()) V["vla"] = ser(VAT2->getSizeExpr());
      }
    }
    if (withInit && VD->hasInit()) V["init"] = ser(VD->getInit());
    return std::move(V);
  }

  const Expr *strip(const Expr *E) {
    for (;;) {
      if (const auto *P = dyn_cast<ParenExpr>(E)) { E = P->getSubExpr(); continue; }
      if (const auto *X = dyn_cast<ExprWithCleanups>(E)) { E = X->getSubExpr(); continue; }
      if (const auto *M = dyn_cast<MaterializeTemporaryExpr>(E)) { E = M->getSubExpr(); continue; }
      if (const auto *B = dyn_cast<CXXBindTemporaryExpr>(E)) { E = B->getSubExpr(); continue; }
      if (const auto *C = dyn_cast<ConstantExpr>(E)) { E = C->getSubExpr(); continue; }
      if (const auto *IC = dyn_cast<ImplicitCastExpr>(E)) {
        switch (IC->getCastKind()) {
        case CK_LValueToRValue:
        case CK_NoOp:
        case CK_FunctionToPointerDecay:
        case CK_BuiltinFnToFnPtr:
          E = IC->getSubExpr();
          continue;
        default:
          break;
        }
      }
      return E;
    }
  }

  json::Value serExpr(const Expr *E0) {
    if (!E0) return nullptr;
    const Expr *E = strip(E0);
    json::Object O;
    O["l"] = (int64_t)lineOf(E->getBeginLoc());
    O["t"] = ty(E->getType());
    attachConst(O, E0);

    if (const auto *OC = dyn_cast<CXXOperatorCallExpr>(E)) {
      O["k"] = "OpCall";
      O["op"] = getOperatorSpelling(OC->getOperator());
      if (const FunctionDecl *FD = OC->getDirectCallee()) {
        O["callee"] = calleeInfo(FD);
        // a generic lambda's body is only resolved in the instantiated call operator: attach it to the call
        if (const auto *MD = dyn_cast<CXXMethodDecl>(FD))
          if (MD->getParent()->isLambda() && MD->isTemplateInstantiation() && MD->hasBody() &&
              LamDepth < 4) {
            ++LamDepth;
            json::Object L;
            json::Array P;
            for (const ParmVarDecl *PV : MD->parameters()) {
              json::Object PO;
              PO["n"] = PV->getNameAsString();
              PO["t"] = ty(PV->getType());
              PO["id"] = localId(PV);
              P.push_back(std::move(PO));
            }
            L["params"] = std::move(P);
            L["ret"] = ty(MD->getReturnType());
            L["body"] = ser(MD->getBody());
            O["lam"] = std::move(L);
            --LamDepth;
          }
      }
      json::Array A;
      for (const Expr *Arg : OC->arguments()) A.push_back(serExpr(Arg));
      O["args"] = std::move(A);
    } else if (const auto *MC = dyn_cast<CXXMemberCallExpr>(E)) {
      O["k"] = "MCall";
      if (const CXXMethodDecl *MD = MC->getMethodDecl()) O["callee"] = calleeInfo(MD);
      const Expr *Callee = MC->getCallee()->IgnoreParens();
      if (const auto *ME = dyn_cast<MemberExpr>(Callee)) {
        O["recv"] = serExpr(ME->getBase());
        if (ME->isArrow()) O["arrow"] = true;
        if (MC->getMethodDecl() && MC->getMethodDecl()->isVirtual() &&
            ME->performsVirtualDispatch(Ctx.getLangOpts()))
          O["virt"] = true;
        if (ME->hasQualifier()) O["qualified"] = true;
      } else {
        O["recv"] = serExpr(MC->getImplicitObjectArgument());
        // (obj.*pm)(..) / (ptr->*pm)(..): keep the pointer-to-member expression
        if (const auto *BO = dyn_cast<BinaryOperator>(Callee)) {
          if (BO->getOpcode() == BO_PtrMemD || BO->getOpcode() == BO_PtrMemI) {
            O["fn"] = serExpr(BO->getRHS());
            if (BO->getOpcode() == BO_PtrMemI) O["arrow"] = true;
          }
        }
      }
      json::Array A;
      for (const Expr *Arg : MC->arguments()) A.push_back(serExpr(Arg));
      O["args"] = std::move(A);
    } else if (const auto *CE = dyn_cast<CallExpr>(E)) {
      O["k"] = "Call";
      if (const FunctionDecl *FD = CE->getDirectCallee())
        O["callee"] = calleeInfo(FD);
      else
        O["fn"] = serExpr(CE->getCallee());
      json::Array A;
      for (const Expr *Arg : CE->arguments()) A.push_back(serExpr(Arg));
      O["args"] = std::move(A);
    } else if (const auto *CC = dyn_cast<CXXConstructExpr>(E)) {
      O["k"] = "Construct";
      O["callee"] = calleeInfo(CC->getConstructor());
      if (CC->getConstructor()->isCopyOrMoveConstructor()) O["copymove"] = true;
      if (CC->isElidable()) O["elidable"] = true;
      json::Array A;
      for (const Expr *Arg : CC->arguments()) A.push_back(serExpr(Arg));
      O["args"] = std::move(A);
    } else if (const auto *DR = dyn_cast<DeclRefExpr>(E)) {
      O["k"] = "Ref";
      const ValueDecl *D = DR->getDecl();
      O["n"] = D->getNameAsString();
      if (const auto *EC = dyn_cast<EnumConstantDecl>(D)) {
        O["d"] = "enumconst";
        O["qn"] = qn(EC);
        if (const auto *ED = dyn_cast<EnumDecl>(EC->getDeclContext())) O["enum"] = qn(ED);
        const llvm::APSInt &V = EC->getInitVal();
        O["val"] = V.isSigned() ? (int64_t)V.getSExtValue() : (int64_t)V.getZExtValue();
      } else if (const auto *PV = dyn_cast<ParmVarDecl>(D)) {
        O["d"] = "param";
        O["id"] = localId(PV);
        O["idx"] = (int64_t)PV->getFunctionScopeIndex();
      } else if (const auto *VD = dyn_cast<VarDecl>(D)) {
        if (VD->hasGlobalStorage() && !VD->isStaticLocal()) {
          O["d"] = "global";
          O["qn"] = qn(VD);
          if (VD->getType().isConstQualified()) O["const"] = true;
        } else {
          O["d"] = VD->isStaticLocal() ? "staticlocal" : "local";
          O["id"] = localId(VD);
        }
        if (VD->getType()->isReferenceType()) O["ref"] = true;
      } else if (const auto *FD = dyn_cast<FunctionDecl>(D)) {
        O["d"] = "func";
        O["callee"] = calleeInfo(FD);
      } else {
        O["d"] = D->getDeclKindName();
        O["qn"] = qn(D);
      }
      if (DR->refersToEnclosingVariableOrCapture()) O["captured"] = true;
    } else if (const auto *ME = dyn_cast<MemberExpr>(E)) {
      O["k"] = "Member";
      O["n"] = ME->getMemberDecl()->getNameAsString();
      O["base"] = serExpr(ME->getBase());
      if (ME->isArrow()) O["arrow"] = true;
      if (const auto *FD = dyn_cast<FieldDecl>(ME->getMemberDecl())) {
        O["cls"] = recName(FD->getParent());
        O["field"] = true;
      } else if (const auto *MD = dyn_cast<CXXMethodDecl>(ME->getMemberDecl())) {
        O["cls"] = recName(MD->getParent());
        O["method"] = true;
      } else if (const auto *VD = dyn_cast<VarDecl>(ME->getMemberDecl())) {
        O["cls"] = qn(dyn_cast<NamedDecl>(VD->getDeclContext()));
        O["staticmember"] = true;
      }
    } else if (isa<CXXThisExpr>(E)) {
      O["k"] = "This";
    } else if (const auto *IL = dyn_cast<IntegerLiteral>(E)) {
      O["k"] = "Lit";
      llvm::APInt V = IL->getValue();
      if (V.getActiveBits() <= 63) O["v"] = (int64_t)V.getZExtValue();
      else O["v"] = llvm::toString(V, 10, false);
    } else if (const auto *BL = dyn_cast<CXXBoolLiteralExpr>(E)) {
      O["k"] = "Lit";
      O["v"] = BL->getValue();
    } else if (const auto *SL = dyn_cast<StringLiteral>(E)) {
      O["k"] = "Str";
      if (SL->isAscii() || SL->isUTF8()) O["v"] = json::fixUTF8(SL->getBytes());
    } else if (const auto *CL = dyn_cast<CharacterLiteral>(E)) {
      O["k"] = "Lit";
      O["v"] = (int64_t)CL->getValue();
      O["char"] = true;
    } else if (isa<FloatingLiteral>(E)) {
      O["k"] = "Lit";
      O["float"] = true;
    } else if (isa<CXXNullPtrLiteralExpr>(E) || isa<GNUNullExpr>(E)) {
      O["k"] = "Lit";
      O["null"] = true;
    } else if (const auto *BO = dyn_cast<BinaryOperator>(E)) {
      O["k"] = "Bin";
      O["op"] = BO->getOpcodeStr();
      O["lhs"] = serExpr(BO->getLHS());
      O["rhs"] = serExpr(BO->getRHS());
      if (const auto *CAO = dyn_cast<CompoundAssignOperator>(BO)) {
        O["comptype"] = ty(CAO->getComputationResultType());
      }
    } else if (const auto *UO = dyn_cast<UnaryOperator>(E)) {
      O["k"] = "Un";
      std::string Op = UnaryOperator::getOpcodeStr(UO->getOpcode()).str();
      if (UO->isPostfix()) Op = "post" + Op;
      else if (UO->isIncrementDecrementOp()) Op = "pre" + Op;
      O["op"] = Op;
      O["e"] = serExpr(UO->getSubExpr());
    } else if (const auto *CO = dyn_cast<ConditionalOperator>(E)) {
      O["k"] = "Cond";
      O["c"] = serExpr(CO->getCond());
      O["a"] = serExpr(CO->getTrueExpr());
      O["b"] = serExpr(CO->getFalseExpr());
    } else if (const auto *CX = dyn_cast<CastExpr>(E)) {
      O["k"] = "Cast";
      O["ck"] = CX->getCastKindName();
      if (isa<ImplicitCastExpr>(CX)) O["style"] = "implicit";
      else if (isa<CXXStaticCastExpr>(CX)) O["style"] = "static";
      else if (isa<CXXReinterpretCastExpr>(CX)) O["style"] = "reinterpret";
      else if (isa<CXXConstCastExpr>(CX)) O["style"] = "const";
      else if (isa<CXXDynamicCastExpr>(CX)) O["style"] = "dynamic";
      else if (isa<CXXFunctionalCastExpr>(CX)) O["style"] = "functional";
      else if (isa<CStyleCastExpr>(CX)) O["style"] = "c";
      else O["style"] = "other";
      O["from"] = ty(CX->getSubExpr()->getType());
      O["e"] = serExpr(CX->getSubExpr());
    } else if (const auto *AS = dyn_cast<ArraySubscriptExpr>(E)) {
      O["k"] = "Index";
      O["base"] = serExpr(AS->getBase());
      O["idx"] = serExpr(AS->getIdx());
    } else if (const auto *LE = dyn_cast<LambdaExpr>(E)) {
      O["k"] = "Lambda";
      const CXXMethodDecl *Op = LE->getCallOperator();
      json::Array P;
      for (const ParmVarDecl *PV : Op->parameters()) {
        json::Object PO;
        PO["n"] = PV->getNameAsString();
        PO["t"] = ty(PV->getType());
        PO["id"] = localId(PV);
        P.push_back(std::move(PO));
      }
      O["params"] = std::move(P);
      json::Array Caps;
      for (const LambdaCapture &C : LE->captures()) {
        json::Object CO2;
        if (C.capturesThis()) CO2["this"] = true;
        else if (C.capturesVariable()) {
          CO2["n"] = C.getCapturedVar()->getNameAsString();
          CO2["id"] = localId(C.getCapturedVar());
          CO2["byref"] = C.getCaptureKind() == LCK_ByRef;
        }
        Caps.push_back(std::move(CO2));
      }
      O["captures"] = std::move(Caps);
      O["ret"] = ty(Op->getReturnType());
      O["body"] = ser(Op->getBody());
    } else if (const auto *TE = dyn_cast<CXXThrowExpr>(E)) {
      O["k"] = "Throw";
      if (TE->getSubExpr()) {
        O["e"] = serExpr(TE->getSubExpr());
        O["tt"] = ty(TE->getSubExpr()->getType());
        O["stdexc"] = derivesFromStdException(TE->getSubExpr()->getType());
      } else
        O["rethrow"] = true;
    } else if (const auto *NE = dyn_cast<CXXNewExpr>(E)) {
      O["k"] = "New";
      O["alloc"] = ty(NE->getAllocatedType());
      if (NE->isArray() && NE->getArraySize()) O["size"] = serExpr(*NE->getArraySize());
      if (NE->getInitializer()) O["init"] = serExpr(NE->getInitializer());
    } else if (const auto *DE = dyn_cast<CXXDeleteExpr>(E)) {
      O["k"] = "Delete";
      O["e"] = serExpr(DE->getArgument());
    } else if (const auto *UE = dyn_cast<UnaryExprOrTypeTraitExpr>(E)) {
      O["k"] = "Sizeof";
      O["kind"] = (int64_t)UE->getKind();
      if (UE->isArgumentType()) O["of"] = ty(UE->getArgumentType());
      else O["e"] = serExpr(UE->getArgumentExpr());
    } else if (isa<CXXDefaultArgExpr>(E)) {
      O["k"] = "DefaultArg";
      O["e"] = serExpr(cast<CXXDefaultArgExpr>(E)->getExpr());
    } else if (const auto *DI = dyn_cast<CXXDefaultInitExpr>(E)) {
      O["k"] = "DefaultInit";
      O["e"] = serExpr(DI->getExpr());
    } else if (const auto *ILE = dyn_cast<InitListExpr>(E)) {
      O["k"] = "InitList";
      json::Array A;
      for (const Expr *X : ILE->inits()) A.push_back(serExpr(X));
      O["c"] = std::move(A);
    } else if (const auto *SIL = dyn_cast<CXXStdInitializerListExpr>(E)) {
      O["k"] = "StdInitList";
      O["e"] = serExpr(SIL->getSubExpr());
    } else if (const auto *SV = dyn_cast<CXXScalarValueInitExpr>(E)) {
      (void)SV;
      O["k"] = "ValueInit";
    } else if (const auto *TI = dyn_cast<CXXTypeidExpr>(E)) {
      O["k"] = "Typeid";
      if (TI->isTypeOperand()) O["of"] = ty(TI->getTypeOperand(Ctx));
      else O["e"] = serExpr(TI->getExprOperand());
    } else {
      O["k"] = "Other";
      O["cls"] = E->getStmtClassName();
      json::Array A;
      for (const Stmt *C : E->children()) A.push_back(ser(C));
      O["c"] = std::move(A);
    }
    return std::move(O);
  }

  // ---------------------------------------------------------------- functions
  std::string fnKey(const FunctionDecl *FD) {
    std::string K = qn(FD) + targs(FD) + "(";
    for (const ParmVarDecl *P : FD->parameters()) K += ty(P->getType()) + ",";
    K += ")";
    if (const auto *MD = dyn_cast<CXXMethodDecl>(FD))
      if (MD->isConst()) K += "const";
    return K;
  }

  int LamDepth = 0;

  void addFunction(const FunctionDecl *FD) {
    if (!FD->doesThisDeclarationHaveABody()) return;
    if (FD->isDependentContext()) return;
    if (FD->getTemplatedKind() == FunctionDecl::TK_FunctionTemplate) return;
    const FunctionDecl *Loc = FD;
    if (const FunctionDecl *Pat = FD->getTemplateInstantiationPattern()) Loc = Pat;
    if (!inScope(Loc->getLocation())) return;
    if (const auto *MD = dyn_cast<CXXMethodDecl>(FD))
      if (MD->getParent()->isLambda()) return; // serialised inline
    std::string Key = fnKey(FD);
    if (!SeenFn.insert(Key).second) return;

    LocalIds.clear();
    NextLocal = 0;
    json::Object F = calleeInfo(FD);
    F["key"] = Key;
    F["file"] = fileOf(Loc->getLocation());
    F["line"] = (int64_t)lineOf(Loc->getLocation());
    F["endline"] = (int64_t)lineOf(Loc->getEndLoc());
    json::Array Ps;
    for (const ParmVarDecl *P : FD->parameters()) {
      json::Object PO;
      PO["n"] = P->getNameAsString();
      PO["t"] = ty(P->getType());
      PO["tw"] = tyWritten(P->getType());
      PO["id"] = localId(P);
      if (P->hasDefaultArg() && !P->hasUninstantiatedDefaultArg() && !P->hasUnparsedDefaultArg())
        PO["default"] = serExpr(P->getDefaultArg());
      Ps.push_back(std::move(PO));
    }
    F["params"] = std::move(Ps);
    if (FD->isDefaulted()) F["defaulted"] = true;
    if (FD->isImplicit()) F["implicit"] = true;
    if (FD->isInlined()) F["inline"] = true;
    if (FD->isTemplateInstantiation()) F["instantiation"] = true;
    if (const auto *MD = dyn_cast<CXXMethodDecl>(FD)) {
      if (MD->isConst()) F["const"] = true;
      json::Array Ov;
      for (const CXXMethodDecl *OM : MD->overridden_methods()) Ov.push_back(qn(OM));
      if (!Ov.empty()) F["overrides"] = std::move(Ov);
      F["access"] = (int64_t)MD->getAccess();
    }
    if (const auto *CD = dyn_cast<CXXConstructorDecl>(FD)) {
      json::Array Inits;
      for (const CXXCtorInitializer *I : CD->inits()) {
        json::Object IO;
        if (I->isAnyMemberInitializer()) IO["member"] = I->getAnyMember()->getNameAsString();
        else if (I->isBaseInitializer()) IO["base"] = ty(QualType(I->getBaseClass(), 0));
        else if (I->isDelegatingInitializer()) IO["delegating"] = true;
        IO["written"] = I->isWritten();
        IO["init"] = serExpr(I->getInit());
        Inits.push_back(std::move(IO));
      }
      F["inits"] = std::move(Inits);
      if (CD->isCopyConstructor()) F["copyctor"] = true;
      if (CD->isMoveConstructor()) F["movector"] = true;
    }
    F["body"] = ser(FD->getBody());
    Functions.push_back(std::move(F));

    // hash_value instantiations
    if (FD->getDeclName().isIdentifier() && FD->getName() == "hash_value" &&
        FD->isTemplateInstantiation()) {
      if (const TemplateArgumentList *TAL = FD->getTemplateSpecializationArgs()) {
        if (TAL->size() >= 1 && TAL->get(0).getKind() == TemplateArgument::Type) {
          QualType T = TAL->get(0).getAsType();
          json::Object H;
          H["fn"] = Key;
          H["T"] = ty(T);
          H["unique"] = Ctx.hasUniqueObjectRepresentations(T);
          H["trivially_copyable"] = T.isTriviallyCopyableType(Ctx);
          json::Array Sig;
          for (const ParmVarDecl *P : FD->parameters()) Sig.push_back(ty(P->getType()));
          H["sig"] = std::move(Sig);
          if (SeenHash.insert(Key).second) HashInst.push_back(std::move(H));
        }
      }
    }
  }

  // ---------------------------------------------------------------- records
  const char *special(const CXXMethodDecl *MD) {
    if (!MD) return "none";
    if (MD->isDeleted()) return "deleted";
    if (MD->isImplicit()) return "implicit";
    if (MD->isUserProvided()) return "user";
    if (MD->isDefaulted()) return "defaulted";
    return "user";
  }

  void addRecord(const CXXRecordDecl *RD) {
    if (!RD->isThisDeclarationADefinition()) return;
    if (RD->isDependentContext()) return;
    if (RD->isLambda()) return;
    const CXXRecordDecl *Loc = RD;
    if (const CXXRecordDecl *Pat = RD->getTemplateInstantiationPattern()) Loc = Pat;
    if (!inScope(Loc->getLocation())) return;
    if (RD->isInvalidDecl()) return;
    std::string Name = recName(RD);
    if (!SeenRec.insert(Name).second) return;
    json::Object R;
    R["qn"] = Name;
    R["name"] = qn(RD);
    R["file"] = fileOf(Loc->getLocation());
    R["line"] = (int64_t)lineOf(Loc->getLocation());
    R["kind"] = RD->getKindName().str();
    if (isa<ClassTemplateSpecializationDecl>(RD)) R["specialization"] = true;
    json::Array Bases;
    for (const auto &B : RD->bases()) {
      json::Object BO;
      BO["t"] = ty(B.getType());
      BO["virtual"] = B.isVirtual();
      Bases.push_back(std::move(BO));
    }
    R["bases"] = std::move(Bases);
    const ASTRecordLayout *Layout = nullptr;
    if (!RD->isInvalidDecl() && RD->isCompleteDefinition()) Layout = &Ctx.getASTRecordLayout(RD);
    json::Array Fields;
    unsigned idx = 0;
    for (const FieldDecl *FD : RD->fields()) {
      json::Object FO;
      FO["n"] = FD->getNameAsString();
      FO["t"] = ty(FD->getType());
      FO["tw"] = tyWritten(FD->getType());
      FO["l"] = (int64_t)lineOf(FD->getLocation());
      if (FD->getType()->isReferenceType()) FO["ref"] = true;
      if (FD->getType()->isPointerType()) FO["ptr"] = true;
      if (FD->isMutable()) FO["mutable"] = true;
      if (FD->hasInClassInitializer() && FD->getInClassInitializer())
        FO["init"] = serExpr(FD->getInClassInitializer());
      if (Layout) FO["offset"] = (int64_t)Layout->getFieldOffset(idx);
      if (!FD->getType()->isDependentType() && !FD->getType()->isIncompleteType() &&
          !FD->getType()->isReferenceType())
        FO["size"] = (int64_t)Ctx.getTypeSize(FD->getType());
      FO["access"] = (int64_t)FD->getAccess();
      Fields.push_back(std::move(FO));
      ++idx;
    }
    R["fields"] = std::move(Fields);
    if (Layout) R["size"] = (int64_t)Layout->getSize().getQuantity() * 8;
    R["polymorphic"] = RD->isPolymorphic();
    R["unique"] = Ctx.hasUniqueObjectRepresentations(QualType(RD->getTypeForDecl(), 0));

    // special members
    json::Object Sp;
    const CXXMethodDecl *CopyCtor = nullptr, *MoveCtor = nullptr, *CopyAsg = nullptr,
                        *MoveAsg = nullptr;
    for (const CXXConstructorDecl *C : RD->ctors()) {
      if (C->isCopyConstructor()) CopyCtor = C;
      else if (C->isMoveConstructor()) MoveCtor = C;
    }
    for (const CXXMethodDecl *M : RD->methods()) {
      if (M->isCopyAssignmentOperator()) CopyAsg = M;
      else if (M->isMoveAssignmentOperator()) MoveAsg = M;
    }
    Sp["copyCtor"] = CopyCtor ? special(CopyCtor)
                              : (RD->needsImplicitCopyConstructor() ? "implicit" : "none");
    Sp["moveCtor"] = MoveCtor ? special(MoveCtor)
                              : (RD->needsImplicitMoveConstructor() ? "implicit" : "none");
    Sp["copyAssign"] = CopyAsg ? special(CopyAsg)
                               : (RD->needsImplicitCopyAssignment() ? "implicit" : "none");
    Sp["moveAssign"] = MoveAsg ? special(MoveAsg)
                               : (RD->needsImplicitMoveAssignment() ? "implicit" : "none");
    if (const CXXDestructorDecl *DD = RD->getDestructor()) {
      Sp["dtor"] = special(DD);
      if (DD->isVirtual()) Sp["dtorVirtual"] = true;
    } else
      Sp["dtor"] = RD->needsImplicitDestructor() ? "implicit" : "none";
    R["special"] = std::move(Sp);

    json::Array Methods;
    for (const CXXMethodDecl *M : RD->methods()) {
      if (M->isImplicit()) continue;
      json::Object MO;
      MO["n"] = M->getNameAsString();
      MO["key"] = fnKey(M);
      MO["virtual"] = M->isVirtual();
      MO["pure"] = M->isPure();
      MO["access"] = (int64_t)M->getAccess();
      if (M->isDeleted()) MO["deleted"] = true;
      json::Array Ov;
      for (const CXXMethodDecl *OM : M->overridden_methods()) Ov.push_back(fnKey(OM));
      if (!Ov.empty()) MO["overrides"] = std::move(Ov);
      Methods.push_back(std::move(MO));
    }
    R["methods"] = std::move(Methods);
    Records.push_back(std::move(R));
  }

  void addEnum(const EnumDecl *ED) {
    if (!ED->isThisDeclarationADefinition()) return;
    if (!inScope(ED->getLocation())) return;
    std::string Name = qn(ED);
    if (!SeenEnum.insert(Name).second) return;
    json::Object O;
    O["qn"] = Name;
    O["file"] = fileOf(ED->getLocation());
    O["line"] = (int64_t)lineOf(ED->getLocation());
    O["scoped"] = ED->isScoped();
    O["underlying"] = ty(ED->getIntegerType());
    json::Array A;
    for (const EnumConstantDecl *EC : ED->enumerators()) {
      json::Object EO;
      EO["n"] = EC->getNameAsString();
      const llvm::APSInt &V = EC->getInitVal();
      EO["v"] = V.isSigned() ? (int64_t)V.getSExtValue() : (int64_t)V.getZExtValue();
      EO["explicit"] = EC->getInitExpr() != nullptr;
      EO["l"] = (int64_t)lineOf(EC->getLocation());
      A.push_back(std::move(EO));
    }
    O["enumerators"] = std::move(A);
    Enums.push_back(std::move(O));
  }

  void addVar(const VarDecl *VD) {
    if (!VD->hasGlobalStorage()) return;
    if (isa<ParmVarDecl>(VD)) return;
    if (VD->getDeclContext()->isDependentContext()) return;
    if (VD->getType()->isDependentType()) return;
    const VarDecl *Loc = VD;
    if (const VarDecl *Pat = VD->getTemplateInstantiationPattern()) Loc = Pat;
    if (!inScope(Loc->getLocation())) return;
    std::string Name = qn(VD);
    std::string Key = Name + "@" + fileOf(Loc->getLocation()) + ":" +
                      std::to_string(lineOf(Loc->getLocation()));
    if (!SeenVar.insert(Key).second) return;
    json::Object O;
    O["qn"] = Name;
    O["file"] = fileOf(Loc->getLocation());
    O["line"] = (int64_t)lineOf(Loc->getLocation());
    O["t"] = ty(VD->getType());
    O["const"] = VD->getType().isConstQualified() ||
                 (VD->getType()->isArrayType() &&
                  Ctx.getBaseElementType(VD->getType()).isConstQualified());
    O["constexpr"] = VD->isConstexpr();
    O["staticlocal"] = VD->isStaticLocal();
    O["staticmember"] = VD->isStaticDataMember();
    O["tls"] = VD->getTLSKind() != VarDecl::TLS_None;
    O["ref"] = VD->getType()->isReferenceType();
    O["ptr"] = VD->getType()->isPointerType();
    if (VD->getType()->isPointerType())
      O["pointee_const"] = VD->getType()->getPointeeType().isConstQualified();
    bool HasMutable = false;
    QualType BT = Ctx.getBaseElementType(VD->getType());
    if (const CXXRecordDecl *RD = BT->getAsCXXRecordDecl())
      if (RD->hasDefinition()) HasMutable = RD->hasMutableFields();
    O["mutable_fields"] = HasMutable;
    if (const auto *FD = dyn_cast_or_null<FunctionDecl>(VD->getParentFunctionOrMethod()))
      O["infunc"] = qn(FD);
    O["definition"] = VD->isThisDeclarationADefinition() != VarDecl::DeclarationOnly;
    // constant initialiser of a const object (named constants: a rule sees the value, not the name)
    if (bool(O["const"].getAsBoolean().getValueOr(false)) || VD->isConstexpr()) {
      const VarDecl *Def = nullptr;
      if (const Expr *Init = VD->getAnyInitializer(Def)) {
        if (!Init->isValueDependent() && !Init->isTypeDependent()) {
          LocalIds.clear();
          NextLocal = 0;
          O["init"] = serExpr(Init);
        }
      }
    }
    Vars.push_back(std::move(O));
  }
};

class Visitor : public RecursiveASTVisitor<Visitor> {
public:
  explicit Visitor(Extractor &X) : X(X) {}
  bool shouldVisitTemplateInstantiations() const { return true; }
  bool shouldVisitImplicitCode() const { return false; }
  bool VisitFunctionDecl(FunctionDecl *FD) {
    X.addFunction(FD);
    return true;
  }
  bool VisitCXXRecordDecl(CXXRecordDecl *RD) {
    X.addRecord(RD);
    return true;
  }
  bool VisitEnumDecl(EnumDecl *ED) {
    X.addEnum(ED);
    return true;
  }
  bool VisitVarDecl(VarDecl *VD) {
    X.addVar(VD);
    return true;
  }
  Extractor &X;
};

class Consumer : public ASTConsumer {
public:
  explicit Consumer(std::string In) : In(std::move(In)) {}
  void HandleTranslationUnit(ASTContext &Ctx) override {
    json::Object Top;
    Top["tu"] = In;
    bool HadErrors = Ctx.getDiagnostics().hasErrorOccurred();
    Top["errors"] = HadErrors;
    Extractor X(Ctx);
    if (!HadErrors) {
      Visitor V(X);
      V.TraverseDecl(Ctx.getTranslationUnitDecl());
    }
    Top["functions"] = std::move(X.Functions);
    Top["records"] = std::move(X.Records);
    Top["enums"] = std::move(X.Enums);
    Top["vars"] = std::move(X.Vars);
    Top["hashinst"] = std::move(X.HashInst);
    std::error_code EC;
    llvm::raw_fd_ostream OS(OutFile, EC);
    if (EC) {
      llvm::errs() << "cannot write " << OutFile << ": " << EC.message() << "\n";
      return;
    }
    OS << json::Value(std::move(Top));
    OS << "\n";
  }
  std::string In;
};

class Action : public ASTFrontendAction {
public:
  std::unique_ptr<ASTConsumer> CreateASTConsumer(CompilerInstance &, StringRef InFile) override {
    return std::make_unique<Consumer>(InFile.str());
  }
};

} // namespace

int main(int argc, const char **argv) {
  auto Exp = CommonOptionsParser::create(argc, argv, Cat);
  if (!Exp) {
    llvm::errs() << llvm::toString(Exp.takeError());
    return 2;
  }
  CommonOptionsParser &OP = Exp.get();
  ClangTool Tool(OP.getCompilations(), OP.getSourcePathList());
  int rc = Tool.run(newFrontendActionFactory<Action>().get());
  return rc;
}
