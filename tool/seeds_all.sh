#!/bin/sh
# Runs every quick check against scratch copies of /repo with one stored seeded change applied each and prints, per
# seed, the properties that raise an alarm.  The seed's own property must be among them.
set -u
T=$(mktemp -d "${TMPDIR:-/tmp}/seeds.XXXXXX")
trap 'rm -rf "$T"' EXIT
cd /verif
for s in seeded/*/; do
  id=$(basename $s)
  d="$T/$id"
  mkdir -p "$d"
  (cd /repo && tar cf - --exclude=_build --exclude=.git .) | (cd "$d" && tar xf -)
  (cd "$d" && patch -s -p1 < /verif/$s/patch.diff >/dev/null 2>&1) || echo "$id: patch does not apply"
done
ls -d "$T"/C* | xargs -P 10 -I{} sh -c 'VERIF_SEEDRUN=1 VERIF_NO_CACHE=1 ./check all --repo {} > {}/.out 2>&1; echo $? > {}/.rc'
miss=0
for d in "$T"/C*; do
  id=$(basename $d); prop=${id%%-*}
  props=$(grep -E "^VIOLATION" "$d/.out" | sed 's/.*property=\([A-Z0-9]*\).*/\1/' | sort -u | tr '\n' ' ')
  br=$(grep -cE "^ANALYSIS-BROKEN|Traceback" "$d/.out")
  case " $props" in *" $prop "*) st=caught;; *) st=MISSED; miss=$((miss+1));; esac
  echo "$id: $st  violations in: $props  (broken lines: $br)"
  if [ "$st" = MISSED ]; then grep -E "^ANALYSIS-BROKEN|Traceback" -A3 "$d/.out" | head -10 | cut -c1-300; fi
done
echo "missed: $miss"
