"""Twin members: a counter that is kept in step with another member of the same object.

    m_pending  ==  m_p - m_buffer        (staged byte count next to the write cursor)

A non-public scalar member T is a twin of a non-public member P when *every* write to either of them - constructor
initialisers included - is one half of a pair of adjacent plain statements (nothing between them that could throw or leave)

    T = cT;  P = cP;           with one and the same pair of constants (cT, cP) everywhere        (a reset)
    T += e;  P += e;           or  T += e; P -= e;  with one and the same sign everywhere          (a step)

and every constructor has a reset pair.  Then  T == cT + sgn * (P - cP)  holds whenever control is outside such a pair, by
induction over the writes.  `eliminate` rewrites T away (reads become that expression, stores and the field go), so the
rules see the class as if the count were computed from the cursor at every use - the form they are written for.  A member
that is not provably a twin is left alone: the rules then judge the code as it stands."""
import copy

from . import ir
from .ir import path, unwrap, unwrap_all_casts, show, walk

INTS = ("unsigned long", "long", "unsigned int", "int", "std::size_t", "size_t", "unsigned long long", "long long", "unsigned short", "short",
        "std::ptrdiff_t", "ptrdiff_t")


def _this_member(e):
    p = path(unwrap_all_casts(e)) if isinstance(e, dict) else None
    if p and p[0] == "this" and len(p) == 2:
        return p[1]
    return None


def _pure(e, banned):
    """no call, no write, no read of the banned members"""
    for x in walk(e):
        k = x.get("k")
        if k in ("Call", "MCall", "OpCall", "Construct", "New", "Delete", "Throw", "Lambda"):
            return False
        if k == "Bin" and (x.get("op") or "").endswith("=") and x.get("op") not in ("==", "!=", "<=", ">="):
            return False
        if k == "Un" and x.get("op") in ("pre++", "post++", "pre--", "post--"):
            return False
        if k == "Member" and _this_member(x) in banned:
            return False
    return True


def _constant(e, written):
    """a value that is the same at every evaluation inside one object: literals, named constants, addresses of array members"""
    for x in walk(e):
        k = x.get("k")
        if k in ("Lit", "Cast", "This", "Paren"):
            continue
        if k == "Ref":
            if x.get("d") == "global" and x.get("const"):
                continue
            return False
        if k == "Member":
            m = _this_member(x)
            if m is not None and m not in written and "[" in (x.get("t") or ""):
                continue
            return False
        if k in ("Bin", "Un") and x.get("op") in ("+", "-", "*"):
            continue
        return False
    return True


def _store(s):
    """(member, op, rhs) for a statement that is a plain store to a member of *this, else None"""
    u = unwrap(s)
    if not isinstance(u, dict):
        return None
    if u.get("k") == "Bin" and u.get("op") in ("=", "+=", "-="):
        m = _this_member(u.get("lhs"))
        if m is not None:
            return m, u["op"], u.get("rhs")
    if u.get("k") == "Un" and u.get("op") in ("pre++", "post++", "pre--", "post--"):
        m = _this_member(u.get("e"))
        if m is not None:
            return m, "+=" if "++" in u["op"] else "-=", {"k": "Lit", "v": 1, "cv": 1, "t": "int"}
    return None


def _mentions(n, names):
    for x in walk(n):
        if x.get("k") == "Member" and _this_member(x) in names:
            return True
    return False


def _pairs_in(f, T, P):
    """pairs of adjacent stores (T-store, P-store) of one function, or None when some access to T or P is anything else"""
    pairs = []
    ok = [True]

    def block(sts):
        i = 0
        used = set()
        for i, s in enumerate(sts):
            st = _store(s)
            if st is None or st[0] not in (T, P):
                continue
            if i in used:
                continue
            # partner: the next store to the other member, only plain call-free stores in between
            j = i + 1
            partner = None
            while j < len(sts):
                s2 = _store(sts[j])
                if s2 is None or not _pure(s2[2], (T,)):
                    break                   # (between the two halves T is out of step: nothing may read it there)
                if s2[0] in (T, P):
                    if s2[0] != st[0]:
                        partner = j
                    break
                j += 1
            if partner is None or not _pure(st[2], (T, P)) or not _pure(_store(sts[partner])[2], (T, P)):
                ok[0] = False
                return
            used.add(i)
            used.add(partner)
            a, b = (st, _store(sts[partner])) if st[0] == T else (_store(sts[partner]), st)
            pairs.append((a, b, unwrap(s).get("l")))
        # everything else in this list must not write T or P (reads are fine)
        for i, s in enumerate(sts):
            if i in used:
                continue
            visit(s)

    def visit(n):
        if not ok[0]:
            return
        if isinstance(n, list):
            for x in n:
                visit(x)
            return
        if not isinstance(n, dict):
            return
        k = n.get("k")
        if k == "Block":
            block([x for x in n.get("s", [])])
            return
        if k == "Bin" and (n.get("op") or "").endswith("=") and n.get("op") not in ("==", "!=", "<=", ">="):
            if _this_member(n.get("lhs")) in (T, P):
                ok[0] = False
                return
        if k == "Un" and n.get("op") in ("pre++", "post++", "pre--", "post--", "&") and _this_member(n.get("e")) in (T, P):
            ok[0] = False
            return
        if k in ("Call", "MCall", "OpCall", "Construct"):
            cal = n.get("callee") or {}
            args = list(n.get("args", []))
            sig = list(cal.get("sig", []) or [])
            if k == "OpCall" and cal.get("cls") and args:
                args = args[1:]
            for a, t in zip(args, sig):
                if (t.endswith("&") or t.endswith("*")) and not t.startswith("const ") and _this_member(a) in (T, P):
                    ok[0] = False
                    return
        if k == "Lambda" and _mentions(n, (T, P)):
            ok[0] = False
            return
        for c in ir.children(n):
            visit(c)
    body = f.get("body")
    if isinstance(body, dict) and body.get("k") == "Block":
        block(list(body.get("s", [])))
    else:
        visit(body)
    return pairs if ok[0] else None


def analyse(facts, cls, methods, keep=()):
    """{T: {"P":.., "sgn":.., "cT": expr, "cP": expr, "stores": [nodes]}} for the twins of the class"""
    rec = facts.records.get(cls) or {}
    fields = rec.get("fields", [])
    out = {}
    taken = set()
    own = [f for f in methods if f.get("body") is not None]
    ctors = [f for f in own if f.get("cls") == cls and f.get("ctor")]
    if not ctors:
        return out
    for ft in fields:
        T = ft["n"]
        if ft.get("access") == 0 or (ft.get("t") or "").replace("const ", "") not in INTS or T in taken or T in keep:
            continue
        touching = [f for f in own if _mentions(f.get("body"), (T,)) or any(i_.get("member") == T for i_ in f.get("inits", []) or [])]
        if not any(not f.get("ctor") for f in touching):
            continue
        for fp in fields:
            P = fp["n"]
            if P == T or fp.get("access") == 0 or P in taken or P in out:
                continue
            if not (fp.get("ptr") or (fp.get("t") or "") in INTS):
                continue
            res = _try(facts, cls, own, ctors, T, P)
            if res is not None:
                out[T] = res
                taken.add(T)
                taken.add(P)
                break
    return out


def _try(facts, cls, own, ctors, T, P):
    resets, steps, nodes = [], [], []
    for f in own:
        init_t = [i_ for i_ in (f.get("inits") or []) if i_.get("member") == T and i_.get("init") is not None]
        init_p = [i_ for i_ in (f.get("inits") or []) if i_.get("member") == P and i_.get("init") is not None]
        if f in ctors:
            if len(init_t) == 1 and len(init_p) == 1:
                resets.append((init_t[0]["init"], init_p[0]["init"], f))
            elif init_t or init_p:
                return None
        pairs = _pairs_in(f, T, P)
        if pairs is None:
            return None
        if f in ctors and not (init_t and init_p) and not any(a[1] == "=" for a, b, l in pairs):
            return None                 # a constructor that does not establish the relation
        for a, b, line in pairs:
            if a[1] == "=" and b[1] == "=":
                resets.append((a[2], b[2], f))
            elif a[1] in ("+=", "-=") and b[1] in ("+=", "-="):
                if show(a[2]) != show(b[2]):
                    return None
                steps.append(1 if a[1] == b[1] else -1)
            else:
                return None
    if not resets or not steps or len(set(steps)) != 1:
        return None
    written = {T, P}
    if not all(_constant(t_, written) and _constant(p_, written) for t_, p_, f in resets):
        return None
    if len(set((show(t_), show(p_)) for t_, p_, f in resets)) != 1:
        return None
    return {"P": P, "sgn": steps[0], "cT": resets[0][0], "cP": resets[0][1], "n_resets": len(resets), "n_steps": len(steps)}


def eliminate(facts, cls, methods, found):
    rec = facts.records.get(cls) or {}
    ftype = dict((f_["n"], f_) for f_ in rec.get("fields", []))
    n = 0
    for T, d in found.items():
        P, sgn = d["P"], d["sgn"]

        def value(at):
            this = {"k": "This", "l": at, "t": cls + " *"}
            pm = {"k": "Member", "arrow": True, "base": this, "cls": cls, "field": True, "l": at, "n": P, "t": ftype[P]["t"]}
            diff = {"k": "Bin", "op": "-", "lhs": pm, "rhs": copy.deepcopy(d["cP"]), "t": "long", "l": at}
            ct = unwrap_all_casts(d["cT"])
            zero = isinstance(ct, dict) and ct.get("cv") == 0
            if sgn == 1:
                e = diff if zero else {"k": "Bin", "op": "+", "lhs": copy.deepcopy(d["cT"]), "rhs": diff, "t": "long", "l": at}
            else:
                e = {"k": "Bin", "op": "-", "lhs": copy.deepcopy(d["cT"]), "rhs": diff, "t": "long", "l": at}
            return {"k": "Cast", "ck": "IntegralCast", "style": "implicit", "from": "long", "t": ftype[T]["t"], "e": e, "l": at}

        def rep(x):
            if isinstance(x, list):
                out = []
                for y in x:
                    st = _store(y) if isinstance(y, dict) else None
                    if st is not None and st[0] == T:
                        continue
                    out.append(rep(y))
                return out
            if not isinstance(x, dict):
                return x
            if x.get("k") == "Member" and _this_member(x) == T:
                return value(x.get("l"))
            return {kk: (rep(vv) if isinstance(vv, (dict, list)) else vv) for kk, vv in x.items()}
        for f in methods:
            if f.get("body") is None:
                continue
            f["body"] = rep(f["body"])
            if f.get("inits"):
                f["inits"] = [i_ for i_ in f["inits"] if i_.get("member") != T]
        rec["derived_fields"] = rec.get("derived_fields", []) + [f_ for f_ in rec.get("fields", []) if f_["n"] == T]
        rec["fields"] = [f_ for f_ in rec.get("fields", []) if f_["n"] != T]
        facts.twins = getattr(facts, "twins", {})
        facts.twins["%s::%s" % (cls, T)] = "%s == %s %s (%s - %s)  [%d reset pairs, %d step pairs]" % (
            T, show(d["cT"]), "+" if sgn == 1 else "-", P, show(d["cP"]), d["n_resets"], d["n_steps"])
        n += 1
    return n
