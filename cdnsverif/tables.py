"""RFC 8618 oracle tables (A6) and table/index slot derivation shared by C01, C02, C09, C11."""
import json
import os

from . import ir, emission
from .ir import path, path_str, unwrap, callee_name, callee_qn, const_value, show, show_f, Env
from .facts import VERIF, AnalysisBroken

_RFC = None


def rfc():
    global _RFC
    if _RFC is None:
        _RFC = json.load(open(os.path.join(VERIF, "rfc8618_tables.json")))
    return _RFC


def map_by_enum(enum_qn):
    for name, m in rfc()["maps"].items():
        if m["enum"] == enum_qn:
            yield name, m


def member_for_enumerator(m, enumerator):
    """RFC member whose name corresponds to the code enumerator ('-' -> '_')."""
    for rname, mem in m["members"].items():
        if rname.replace("-", "_") == enumerator.rstrip("_") or rname.replace("-", "_") == enumerator:
            return rname, mem
    # alias via 'code'
    for rname, mem in m["members"].items():
        if mem.get("code") == enumerator:
            return rname, mem
    return None, None


def short(qn):
    return qn.replace("CDNS::", "")


# ------------------------------------------------------------------ R02.5 mandatory members

def writer_for_struct(facts, analyses, struct, enum):
    """The serialiser of `struct` whose top-level map uses keys of `enum`."""
    out = []
    for key, wa in analyses.items():
        f = wa.fn
        if f.get("cls") == struct and wa.rows and all(r["enum"] == enum for r in wa.rows):
            out.append(wa)
    return out


def check_mandatory(run, analyses, rule):
    facts = run.facts
    n = 0
    for mname, m in rfc()["maps"].items():
        mand = {k: v for k, v in m["members"].items() if not v["optional"]}
        if not mand:
            continue
        was = writer_for_struct(facts, analyses, m["struct"], m["enum"])
        if len(was) < 1:
            run.ob(rule, "%s:writer" % mname, None, None, 0,
                   "expected a serialiser of %s keyed by %s, found none" % (m["struct"], m["enum"]))
            continue
        en = facts.enum(m["enum"], rule=rule)
        # (a struct may have more than one serialiser - `write(enc)` and a variant taking a value from its caller: each of them
        # has to emit every mandatory member)
        for wi, wa in enumerate(sorted(was, key=lambda w: (w.fn.get("line", 0), w.fn["key"]))):
            byval = {}
            for r in wa.rows:
                byval.setdefault(r["keyval"], []).append(r)
            for rname, mem in mand.items():
                n += 1
                rows = byval.get(mem["key"], [])
                ok = len(rows) == 1 and rows[0]["guard"] == ("T",) and wa.top_guard == ("T",)
                run.ob(rule, "%s.%s%s" % (mname, rname, "" if wi == 0 else "@%s" % wa.fn["qn"].split("::")[-1]), ok, wa.fn,
                       rows[0]["line"] if rows else wa.fn["line"],
                       "mandatory member emitted unconditionally" if ok else
                       ("mandatory RFC 8618 member %s (key %d) is %s" % (
                           rname, mem["key"],
                           "not emitted" if not rows else "emitted only under %s" % show_f(
                               ir.f_and(rows[0]["guard"], wa.top_guard)))))
    run.floor(rule, 20, "mandatory RFC 8618 members")


# ------------------------------------------------------------------ block tables: which add_*/get_* touches which table

BLOCK = "CDNS::CdnsBlock"
NOT_A_TABLE_INDEX = {"block_parameters_index": "indexes the file preamble's block-parameters array, not a block table (see C13/C18)"}


def table_members(facts):
    rec = facts.record(BLOCK, rule="tables")
    return [f["n"] for f in rec["fields"] if f["t"].startswith("CDNS::BlockTable<")]


def direct_tables(fn, tabs):
    out = set()
    for n in ir.walk(fn["body"]):
        if n.get("k") == "Member" and n.get("field") and n.get("n") in tabs:
            b = unwrap(n.get("base"))
            if isinstance(b, dict) and b.get("k") == "This":
                out.add(n["n"])
    return out


def result_table(facts, fn, tabs, depth=0):
    """Table whose index a CdnsBlock::add_* function returns (follows `return add_x(...)`)."""
    if depth > 4:
        return None
    rets = [n for n in ir.walk(fn["body"]) if n.get("k") == "Return" and n.get("e") is not None]
    res = set()
    for r in rets:
        e = unwrap(r["e"])
        if isinstance(e, dict) and e.get("k") == "MCall" and (e.get("callee") or {}).get("cls") == BLOCK:
            cands = [g for g in facts.fns(callee_qn(e)) if g["sig"] == e["callee"]["sig"]]
            if len(cands) == 1:
                t = result_table(facts, cands[0], tabs, depth + 1)
                if t:
                    res.add(t)
                continue
        d = direct_tables(fn, tabs)
        if len(d) == 1:
            res |= d
    if len(res) == 1:
        return list(res)[0]
    return None


def adders_getters(facts):
    tabs = set(table_members(facts))
    adders, getters = {}, {}
    for f in facts.functions.values():
        if f.get("cls") != BLOCK:
            continue
        nm = f["qn"].split("::")[-1]
        if nm.startswith("add_") and f.get("ret") == "unsigned int":
            t = result_table(facts, f, tabs)
            if t:
                adders[f["qn"]] = t
        elif nm.startswith("get_") and len(f.get("sig", [])) == 1 and f["sig"][0] == "unsigned int":
            d = direct_tables(f, tabs)
            if len(d) == 1:
                getters[f["qn"]] = list(d)[0]
    return adders, getters, tabs


def read_side_member_getters(facts):
    """member name -> set of getter qns applied to it in CdnsBlockRead::read_generic_* / fill_generic_*."""
    out = {}
    for f in facts.functions.values():
        if f.get("cls") != "CDNS::CdnsBlockRead":
            continue
        for c in ir.calls_in(f["body"]):
            q = callee_qn(c)
            if not q or not q.startswith("CDNS::CdnsBlock::get_") or len(c.get("args", [])) != 1:
                continue
            p = path(c["args"][0])
            if p is None:
                continue
            comps = [x for x in p if x != "$"]
            if comps and comps[-1].endswith("_index"):
                out.setdefault(comps[-1], set()).add(q)
    return out


def index_assignments(fn):
    """Assignments `<...>.<x_index> = rhs` in fn: [(member, rhs, node)]."""
    out = []
    for n in ir.walk(fn["body"]):
        lhs = rhs = None
        if n.get("k") == "Bin" and n.get("op") == "=":
            lhs, rhs = n["lhs"], n["rhs"]
        elif n.get("k") == "OpCall" and n.get("op") == "=" and len(n.get("args", [])) == 2:
            lhs, rhs = n["args"]
        if lhs is None:
            continue
        p = path(lhs)
        if p is None:
            continue
        comps = [x for x in p if x != "$"]
        if len(comps) == 2 and comps[0] == "this":
            # a member of the block object itself (bookkeeping), not the index field of an item that gets stored
            continue
        if comps and comps[-1].endswith("_index") and len(comps) >= 2:
            out.append((comps[-1], rhs, n))
    return out


def rhs_adder(rhs):
    e = ir.unwrap_all_casts(rhs)
    # optional<T>(value) construction wrappers
    while isinstance(e, dict) and e.get("k") == "Construct" and len(e.get("args", [])) == 1:
        e = ir.unwrap_all_casts(e["args"][0])
    if isinstance(e, dict) and e.get("k") == "MCall" and (e.get("callee") or {}).get("cls") == BLOCK:
        return callee_qn(e)
    return None


def index_sources(facts, fn, rhs, depth=0):
    """[('adder', qn) | ('remembered', (member, qn)) | ('other', text)] - where the value of an index expression can come from"""
    e = ir.unwrap_all_casts(rhs)
    while isinstance(e, dict) and e.get("k") == "Construct" and len(e.get("args", [])) == 1:
        e = ir.unwrap_all_casts(e["args"][0])
    if not isinstance(e, dict) or depth > 3:
        return [("other", show(rhs))]
    if e.get("k") == "MCall" and (e.get("callee") or {}).get("cls") == BLOCK:
        return [("adder", callee_qn(e))]
    if e.get("k") == "Ref" and e.get("d") == "local":
        defs = []
        for x in ir.walk(fn["body"]):
            if x.get("k") == "Decl":
                defs += [v["init"] for v in x.get("vars", []) if v.get("id") == e.get("id") and v.get("n") == e.get("n") and v.get("init") is not None]
            elif x.get("k") == "Bin" and x.get("op") == "=" and path(x.get("lhs")) == path(e):
                defs.append(x.get("rhs"))
        if not defs:
            return [("other", show(rhs))]
        out = []
        for d in defs:
            out += index_sources(facts, fn, d, depth + 1)
        return out
    p = path(e)
    if e.get("k") == "Member" and p and len(p) == 2 and p[0] == "this":
        stores = []
        for g in facts.functions.values():
            if g.get("cls") != BLOCK or g.get("body") is None or g.get("ctor") or g["qn"].endswith("::operator=") or g["qn"].endswith("::clear"):
                continue
            for x in ir.walk(g["body"]):
                if x.get("k") == "Bin" and x.get("op") == "=" and path(x.get("lhs")) == p:
                    stores.append((g, x.get("rhs")))
        srcs = []
        for g, r in stores:
            srcs += index_sources(facts, g, r, depth + 1)
        ads = set(v for k, v in srcs if k == "adder")
        if stores and all(k == "adder" for k, v in srcs) and len(ads) == 1:
            return [("remembered", (p[1], list(ads)[0]))]
    return [("other", show(rhs))]


def check_index_provenance(run, rule):
    facts = run.facts
    adders, getters, tabs = adders_getters(facts)
    if len(adders) < 9 or len(getters) < 9:
        raise AnalysisBroken(rule, "table slot derivation found %d adders / %d getters (expected >= 9 each)" % (len(adders), len(getters)))
    mg = read_side_member_getters(facts)
    n = 0
    members_seen = set()
    for f in sorted(facts.functions.values(), key=lambda f: (f["file"], f["line"])):
        if f.get("cls") != BLOCK:
            continue
        nm = f["qn"].split("::")[-1]
        if not (nm.startswith("add_")):
            continue
        for member, rhs, node in index_assignments(f):
            if member in NOT_A_TABLE_INDEX:
                continue
            n += 1
            members_seen.add(member)
            key = "%s:%s" % (short(f["qn"]) + "(" + ",".join(short(s).split(" ")[1] if " " in short(s) else short(s) for s in f["sig"][:1]) + ")", member)
            ad = rhs_adder(rhs)
            remembered = None
            if ad is None:
                # through a local with several stores, and through a member that only ever receives insertion results
                srcs = index_sources(facts, f, rhs)
                kinds = set(k_ for k_, v_ in srcs)
                ads = set(v_ for k_, v_ in srcs if k_ == "adder") | set(v_[1] for k_, v_ in srcs if k_ == "remembered")
                if srcs and "other" not in kinds and len(ads) == 1:
                    ad = list(ads)[0]
                    rem = [v_[0] for k_, v_ in srcs if k_ == "remembered"]
                    remembered = rem[0] if rem else None
            if remembered is not None and ad in adders:
                run.ob(rule, key, None, f, node.get("l", 0),
                       "index member %s may receive %s, an index remembered from an earlier %s(): whether it still addresses its entry depends on "
                       "what happened to the table since (R01.11 / R12.9 ask that clear() forgets it)" % (member, remembered, short(ad)))
                continue
            want_getters = mg.get(member, set())
            want_tables = set(getters[g] for g in want_getters if g in getters)
            if ad is None or ad not in adders:
                run.ob(rule, key, False, f, node.get("l", 0),
                       "index member %s is assigned %s, which is not the result of a block-table insertion" % (member, show(rhs)))
                continue
            if not want_tables:
                run.ob(rule, key, None, f, node.get("l", 0),
                       "no reader-side getter found for index member %s (cannot derive its table)" % member)
                continue
            ok = want_tables == {adders[ad]}
            run.ob(rule, key, ok, f, node.get("l", 0),
                   ("%s = %s() inserts into %s, the table the reader resolves it in" % (member, short(ad), adders[ad])) if ok else
                   "%s receives an index into %s (from %s) but is resolved in %s by the reader (%s)" % (
                       member, adders[ad], short(ad), sorted(want_tables), sorted(short(g) for g in want_getters)))
    # the insertion functions themselves: what they return is the table's answer on every path.  An index remembered from an
    # earlier call (a one-entry memo under a validity flag) is the table's answer only as long as the table has not been
    # replaced: every member function that clears, assigns or swaps the table has to lower the flag.
    fam = [g for g in facts.functions.values() if g.get("cls") in (BLOCK, "CDNS::CdnsBlockRead") and g.get("body") is not None]
    for q, t in sorted(adders.items()):
        for f in facts.fns(q):
            env = ir.Env(f["body"])
            rets = [(st, g) for st, g, loops in ir.guarded_statements(f["body"], env) if st.get("k") == "Return" and st.get("e") is not None]
            for st, g in rets:
                e = ir.unwrap_all_casts(st["e"])
                src = e
                if isinstance(e, dict) and e.get("k") == "Ref" and e.get("d") == "local" and env.defs.get(path(e)[0]) is not None:
                    src = ir.unwrap_all_casts(env.defs[path(e)[0]])
                def table_call(x_):
                    x_ = ir.unwrap_all_casts(x_)
                    return isinstance(x_, dict) and x_.get("k") == "MCall" and (
                        (path(x_.get("recv")) == ("this", t) and callee_name(x_) in ("add", "add_value")) or (x_.get("callee") or {}).get("cls") == BLOCK)
                from_table = table_call(src)
                if not from_table and isinstance(e, dict) and e.get("k") == "Ref" and e.get("d") == "local":
                    # `index_t ret; if (!m_t.find(x, ret)) ret = m_t.add_value(..); return ret;` - every write of the local is the table's
                    lp_ = path(e)
                    writes, good = 0, 0
                    for x in ir.walk(f["body"]):
                        if x.get("k") == "Decl":
                            for v_ in x.get("vars", []):
                                if ("l:%s#%s" % (v_.get("n"), v_.get("id")),) == lp_ and v_.get("init") is not None:
                                    writes += 1
                                    good += 1 if table_call(v_["init"]) else 0
                        elif x.get("k") == "Bin" and (x.get("op") or "").endswith("=") and x.get("op") not in ("==", "!=", "<=", ">=") and path(x.get("lhs")) == lp_:
                            writes += 1
                            good += 1 if (x["op"] == "=" and table_call(x.get("rhs"))) else 0
                        elif x.get("k") == "MCall" and any(path(a_) == lp_ for a_ in x.get("args", [])):
                            writes += 1
                            good += 1 if (path(x.get("recv")) == ("this", t) and callee_name(x) == "find") else 0
                    from_table = writes > 0 and writes == good
                if from_table:
                    continue
                n += 1
                key = "%s:returns-the-table's-answer" % short(q)
                mp = path(e) if isinstance(e, dict) else None
                flags_ = [a_[1] if isinstance(a_[1], str) else ir.path_str(a_[1]) for a_ in ir.conjuncts(g) if a_[0] in ("nz", "present")]
                flags_ = [x_ for x_ in flags_ if x_.startswith("this.") and x_.count(".") == 1]
                if mp and "$" in mp:
                    mp = tuple(x_ for x_ in mp if x_ != "$")        # the payload of an optional member
                if not (mp and len(mp) == 2 and mp[0] == "this" and flags_):
                    run.ob(rule, key, False, f, st.get("l", 0),
                           "%s returns %s, which is not what %s.add() answered" % (short(q), show(st["e"]), t))
                    continue
                flag = flags_[0].split(".", 1)[1]
                stale = []
                for g_ in fam:
                    touches = False
                    for x in ir.walk(g_["body"]):
                        if x.get("k") == "MCall" and callee_name(x) in ("clear", "swap", "assign") and path(x.get("recv")) == ("this", t):
                            touches = True
                        if x.get("k") in ("Bin", "OpCall") and x.get("op") == "=":
                            l_ = x.get("lhs") if x["k"] == "Bin" else (x.get("args") or [None])[0]
                            if l_ is not None and path(l_) == ("this", t):
                                touches = True
                    if not touches:
                        continue
                    lowers = any(x.get("k") == "Bin" and x.get("op") == "=" and path(x.get("lhs")) == ("this", flag) and const_value(x.get("rhs")) == 0
                                 for x in ir.walk(g_["body"]))
                    # an optional is lowered by `= boost::none` / reset()
                    lowers = lowers or any(
                        (x.get("k") in ("Bin", "OpCall") and x.get("op") == "=" and
                         path((x.get("lhs") if x["k"] == "Bin" else (x.get("args") or [None])[0]) or {}) == ("this", flag) and
                         "none" in show(x.get("rhs") if x["k"] == "Bin" else (x.get("args") or [None, None])[1]).lower()) or
                        (x.get("k") == "MCall" and callee_name(x) in ("reset", "clear") and path(x.get("recv")) == ("this", flag))
                        for x in ir.walk(g_["body"]))
                    # ... or the function replaces the table by another object's table and takes that object's memo with it:
                    # every member the hit test reads is assigned from the same source
                    if not lowers:
                        src_of = {}
                        for x in ir.walk(g_["body"]):
                            if x.get("k") in ("Bin", "OpCall") and x.get("op") == "=":
                                l_ = x.get("lhs") if x["k"] == "Bin" else (x.get("args") or [None])[0]
                                r_ = x.get("rhs") if x["k"] == "Bin" else (x.get("args") or [None, None])[1]
                                lp_, rp_ = path(l_) if l_ is not None else None, path(ir.unwrap_all_casts(r_)) if r_ is not None else None
                                if lp_ and len(lp_) == 2 and lp_[0] == "this" and rp_ and len(rp_) == 2 and rp_[1] == lp_[1]:
                                    src_of[lp_[1]] = rp_[0]
                        memo_members = set(x_.split(".", 1)[1] for a_ in ir.conjuncts(g) for x_ in
                                           ([a_[1] if isinstance(a_[1], str) else ir.path_str(a_[1])] if a_[0] in ("nz", "present") else
                                            [y_ for y_ in a_[2:4] if isinstance(y_, str)] if a_[0] == "cmp" else [])
                                           if isinstance(x_, str) and x_.startswith("this.") and x_.count(".") == 1) | {mp[1], flag}
                        if t in src_of and all(src_of.get(m_) == src_of[t] for m_ in memo_members):
                            lowers = True
                    if not lowers:
                        stale.append(short(g_["qn"]))
                run.ob(rule, key, not stale, f, st.get("l", 0),
                       "%s answers from a remembered index only while %s is set, and every function that replaces %s lowers it" % (short(q), flag, t) if not stale else
                       "%s returns the remembered index %s while %s is set, but %s replace(s) %s and leave(s) %s set: the index then addresses "
                       "an entry of the table that is gone" % (short(q), mp[1], flag, ", ".join(sorted(set(stale))), t, flag))
    # list elements: vectors handed to add_question_list / add_rr_list are filled by add_question / add_rr
    for listfn, elemfn, lst_add in (("CDNS::CdnsBlock::add_generic_qlist", "CDNS::CdnsBlock::add_question", "CDNS::CdnsBlock::add_question_list"),
                                    ("CDNS::CdnsBlock::add_generic_rrlist", "CDNS::CdnsBlock::add_rr", "CDNS::CdnsBlock::add_rr_list")):
        f = facts.fn(listfn, rule=rule)
        pushes = [c for c in ir.calls_in(f["body"]) if callee_name(c) in ("push_back", "emplace_back")]
        final = [c for c in ir.calls_in(f["body"]) if callee_qn(c) == lst_add]
        ok = bool(pushes) and len(final) == 1
        vec = path(final[0]["args"][0]) if final else None
        for pb in pushes:
            if path(pb.get("recv")) != vec:
                continue
            n += 1
            src = rhs_adder(pb["args"][0]) if pb.get("args") else None
            good = src == elemfn
            run.ob(rule, "%s:element" % short(listfn), good, f, pb.get("l", 0),
                   ("list elements come from %s()" % short(elemfn)) if good else
                   "list handed to %s contains %s, not an index returned by %s" % (short(lst_add), show(pb["args"][0]) if pb.get("args") else "?", short(elemfn)))
        if not ok:
            run.ob(rule, "%s:shape" % short(listfn), None, f, f["line"], "expected push_back(...) into the vector passed to %s" % short(lst_add))
    run.floor(rule, 20, "index assignments in block.cpp")
    run.info["index_members"] = sorted(members_seen)
    run.info["table_adders"] = {short(k): v for k, v in adders.items()}


# ------------------------------------------------------------------ A6: enumerator values / kinds vs RFC 8618

RFC_KIND = {"uint": ("UINT",), "int": ("INT", "UINT"), "bool": ("BOOL",), "tstr": ("TEXT",), "bstr": ("BYTES",),
            "time": ("STRUCT", "ARRAY")}


def writer_kind_class(kind):
    if kind is None:
        return None
    if kind.startswith("UINT"):
        return "UINT"
    if kind.startswith("INT"):
        return "INT"
    return kind


def check_rfc_keys(run, rule, analyses_by_struct, only=None):
    """analyses_by_struct: struct qn -> WriterAnalysis (top-level map rows). Checks key numbers and CBOR kinds
    of every row against RFC 8618; private negative keys only for uniqueness."""
    facts = run.facts
    n = 0
    for mname, m in rfc()["maps"].items():
        if only and mname not in only:
            continue
        en = facts.enum(m["enum"], rule=rule)
        evals = {e["n"]: e["v"] for e in en["enumerators"]}
        # 1. every RFC member has an enumerator of that name with the RFC key number
        for rname, mem in m["members"].items():
            n += 1
            cand = [rname.replace("-", "_"), rname.replace("-", "_") + "_"]
            hit = [c for c in cand if c in evals]
            if not hit and mem.get("code") in evals:
                hit = [mem["code"]]
            if not hit:
                # the code may spell the member differently; fall back to the key number and report as unrecognised
                byval = [k for k, v in evals.items() if v == mem["key"] and not k.endswith("_size")]
                if len(byval) == 1:
                    run.ob(rule, "%s.%s:key" % (mname, rname), True, en["file"], en["line"],
                           "key %d (enumerator %s)" % (mem["key"], byval[0]), nontrivial=False)
                else:
                    run.ob(rule, "%s.%s:key" % (mname, rname), None, en["file"], en["line"],
                           "no enumerator in %s can be matched to RFC member %s" % (m["enum"], rname))
                continue
            ok = evals[hit[0]] == mem["key"]
            run.ob(rule, "%s.%s:key" % (mname, rname), ok, en["file"], en["line"],
                   "map key %d as in RFC 8618" % mem["key"] if ok else
                   "%s::%s = %d but RFC 8618 assigns key %d to %s: files are unreadable for any other RFC 8618 implementation" % (
                       m["enum"], hit[0], evals[hit[0]], mem["key"], rname))
        # 2. uniqueness of all member enumerators (incl. private negative keys)
        vals = {}
        for k, v in evals.items():
            if k.endswith("_size"):
                continue
            vals.setdefault(v, []).append(k)
        dup = {v: ks for v, ks in vals.items() if len(ks) > 1}
        run.ob(rule, "%s:unique-keys" % mname, not dup, en["file"], en["line"],
               "all keys of %s are distinct" % mname if not dup else "duplicate key numbers %s" % dup, nontrivial=False)
        # 3. kinds the writer emits vs RFC types
        wa = analyses_by_struct.get((m["struct"], m["enum"]))
        if wa is None:
            continue
        for r in wa.rows:
            rname, mem = None, None
            for rn, mm in m["members"].items():
                if mm["key"] == r["keyval"]:
                    rname, mem = rn, mm
            if mem is None:
                if r["keyval"] is not None and r["keyval"] < 0 and m.get("private_negative_keys"):
                    continue
                run.ob(rule, "%s.key(%s):rfc" % (mname, r["name"]), False, wa.fn, r["line"],
                       "writer emits key %s=%s which RFC 8618 does not define for %s" % (r["name"], r["keyval"], mname))
                continue
            v = r["value"]
            wk = writer_kind_class(v.kind if v is not None else None)
            t = mem["type"]
            n += 1
            if t.startswith("map:"):
                ok = wk in ("STRUCT", "MAP")
            elif t.startswith("array:"):
                ok = wk == "ARRAY"
                if ok and v.elem is not None:
                    from . import agreement
                    et = t[len("array:"):]
                    ek = writer_kind_class(agreement.effective(v.elem, facts)[0])
                    if et.startswith("map:"):
                        ok = ek in ("STRUCT",)
                    elif et.startswith("array:"):
                        ok = ek in ("STRUCT", "ARRAY")
                    else:
                        ok = ek in RFC_KIND.get(et, ())
            else:
                ok = wk in RFC_KIND.get(t, ())
            run.ob(rule, "%s.%s:type" % (mname, rname), ok, wa.fn, r["line"],
                   "written as %s, RFC type %s" % (wk, t) if ok else
                   "member %s is written as CBOR %s%s but RFC 8618 types it %s" % (
                       rname, wk, ("[%s]" % ek) if v is not None and v.elem is not None else "", t))
    return n


def check_reindex_loops(run, rule):
    """A loop over a table's own items that fills its reverse index (`for (item : items_) indexes_[key(item)] = pos++;` - what the
    copy operations use to re-derive the index from their own storage) gives every item its position: the stored value is a
    local that starts at 0 in front of the loop, is stored and then incremented by one per item (post-increment in the store,
    or an increment later in the body) and written nowhere else.  Anything else that stores a local counter: `pos--`, a
    pre-increment, a start other than 0 = violation; other shapes are not looked at."""
    from . import ir
    from .ir import path, unwrap, unwrap_all_casts, const_value, show
    facts = run.facts
    n = 0
    seen_pat = set()
    for f in sorted(facts.functions.values(), key=lambda f_: (f_.get("file", ""), f_.get("line", 0), f_.get("qn", ""))):
        if not (f.get("cls") or "").startswith("CDNS::BlockTable<") or f.get("body") is None:
            continue
        for lp, parents in ir.walk_with_parents(f["body"]):
            if lp.get("k") != "RangeFor" or not path(lp.get("range")) or path(lp["range"])[0] != "this":
                continue
            stores = []
            for x in ir.walk(lp.get("body")):
                if x.get("k") == "Bin" and x.get("op") == "=":
                    l_ = unwrap_all_casts(x.get("lhs"))
                    if isinstance(l_, dict) and l_.get("k") == "OpCall" and l_.get("op") == "[]" and l_.get("args") and path(l_["args"][0]) and \
                            path(l_["args"][0])[0] == "this" and "map<" in ((l_.get("callee") or {}).get("cls") or ""):
                        stores.append(x)
            if len(stores) != 1:
                continue
            st = stores[0]
            r_ = unwrap_all_casts(st.get("rhs"))
            ctr = None
            how = None
            if isinstance(r_, dict) and r_.get("k") == "Un" and r_.get("op") in ("post++", "post--", "pre++", "pre--") and path(r_.get("e")) and path(r_["e"])[0].startswith("l:"):
                ctr, how = path(r_["e"])[0], r_["op"]
            elif isinstance(r_, dict) and r_.get("k") == "Ref" and path(r_) and path(r_)[0].startswith("l:"):
                ctr, how = path(r_)[0], "plain"
            # a by-value copy made inside the loop body (the parameter of an expanded helper: `index_item(item, pos++)`)
            for _ in range(3):
                if ctr is None or how != "plain":
                    break
                dv = None
                for d in ir.walk(lp.get("body")):
                    if d.get("k") == "Decl":
                        for v in d.get("vars", []):
                            if "l:%s#%s" % (v.get("n"), v.get("id")) == ctr and v.get("init") is not None:
                                dv = unwrap_all_casts(v["init"])
                if dv is None:
                    break
                if isinstance(dv, dict) and dv.get("k") == "Un" and dv.get("op") in ("post++", "post--", "pre++", "pre--") and path(dv.get("e")) and path(dv["e"])[0].startswith("l:"):
                    ctr, how = path(dv["e"])[0], dv["op"]
                elif isinstance(dv, dict) and dv.get("k") == "Ref" and path(dv) and path(dv)[0].startswith("l:"):
                    ctr = path(dv)[0]
                else:
                    ctr = None
            if ctr is None:
                continue
            pat = (f.get("file"), lp.get("l"))
            if pat in seen_pat:
                continue            # (one obligation per template pattern, not per specialisation)
            seen_pat.add(pat)
            n += 1
            init = None
            for d in ir.walk(f["body"]):
                if d.get("k") == "Decl":
                    for v in d.get("vars", []):
                        if "l:%s#%s" % (v.get("n"), v.get("id")) == ctr and v.get("init") is not None:
                            init = const_value(v["init"])
            writes = [x for x in ir.walk(f["body"]) if (x.get("k") == "Un" and x.get("op") in ("post++", "post--", "pre++", "pre--") and path(x.get("e")) == (ctr,)) or
                      (x.get("k") == "Bin" and x.get("op") in ("=", "+=", "-=") and path(x.get("lhs")) == (ctr,))]
            if how == "post++":
                ok = init == 0 and len(writes) == 1
            elif how == "plain":
                later = [w for w in writes if any(w is y for y in ir.walk(lp.get("body")))]
                ok = init == 0 and len(writes) == 1 and len(later) == 1 and (
                    (later[0].get("k") == "Un" and later[0].get("op") in ("post++", "pre++")) or
                    (later[0].get("k") == "Bin" and later[0].get("op") == "+=" and const_value(later[0].get("rhs")) == 1))
                order = {id(x): i for i, x in enumerate(ir.walk(lp.get("body")))}
                ok = ok and order.get(id(later[0]), -1) > order.get(id(st), 0) if later else False
            else:
                ok = False
            name = ctr.split("#")[0][2:]
            run.ob(rule, "%s:reindex-gives-positions" % f["qn"].split("::")[-1], ok, f, st.get("l", 0),
                   "every item is entered under its position (%s starts at 0 and is incremented once per item, after the store)" % name if ok else
                   "the reverse index is filled with %s (%s starts at %s): after a copy / assignment of the table a lookup returns an index that is "
                   "not the item's position - records refer to the wrong table entries" % (show(st.get("rhs")), name, init))
    run.info["reindex_loops"] = n
