"""C08 Reading is invariant under equivalent re-encoding and ignores unknown members (structural clauses)."""
from .. import ir, consumption, decoder
from ..ir import (cond, conjuncts, path, path_str, unwrap, unwrap_all_casts, callee_name, callee_qn, const_value,
                  show, show_f, Env)
from ..facts import AnalysisBroken
from . import C07

META = {
    "level": "other",
    "rule_text": "R08.1 consumption discipline (A4) on every map reader, read_array and the explicit array loops: loop "
                 "condition `length > 0 || indef`, stop-code test first, exactly one key and exactly one value per "
                 "iteration on every path, no fall-through, default: skip_item(), length decremented once. R08.2 no case "
                 "reads what another case writes; time-offset resolution is after the loop. R08.3 imports the decoder "
                 "obligations (skip exhaustiveness, stop-code agreement, tag content, widths). R08.4 every read starts "
                 "from reset state. R08.5 unknown keys cannot alias negative case labels. R08.6 = R07.9 (chunked strings). Reads that only size a reserve() do not make a case order-dependent; the array loop of read_array written out by hand is the same consumption. R08.1 also recognises one loop per length form (counted loop + indefinite loop with the stop-code test first, same body). R08.10 (R07.4 and R07.7 imported for read_int): the argument of every head width is assembled to the value RFC 8949 assigns to its bytes on every path through read_int, and every shift in it stays inside the type of its operand - a wider head of the same value decodes to the same number. R08.11 = R05.7 (read_block ends a definite-length block array where it would end an indefinite one); R08.3 includes R07.13 (skip_item bookkeeping) and the stop-test polarity of R07.2.",
    "explanation": "Sibling cross-check of ~19 readers against one loop discipline, decided on the structured AST for all "
                   "inputs; equality of decoded values across rewrites is not decided.",
    "trusted_base": ["clang 14 AST"],
    "assumptions": ["C07 obligations (imported as R08.3)"],
}


def short(q):
    return q.replace("CDNS::", "")


def map_readers(facts):
    out = []
    for f in facts.functions.values():
        if f.get("cls") == consumption.DEC or not f.get("file", "").startswith(facts.repo + "/src/"):
            continue
        if any(consumption.decoder_call(c) == "read_map_start" for c in ir.calls_in(f["body"])):
            out.append(f)
    return sorted(out, key=lambda f: (f["file"], f["line"]))


CODES = [("loop", "both-length-forms"), ("break", "stop-code-test-first"), ("key", "one-key-per-iteration"),
         ("length", "length-decremented-once"), ("default", "default-skips-one-item"), ("extra", "nothing-consumed-outside-switch")]


def check_readers(run, rule):
    facts = run.facts
    readers = map_readers(facts)
    analyses = {}
    ncase = 0
    for f in readers:
        mr = consumption.analyse_full(f, facts)
        analyses[f["key"]] = mr
        name = short(f["qn"])
        for line, text in mr.unrecognised:
            run.ob(rule, "%s:unrecognised" % name, None, f, line, text)
        if mr.unrecognised and mr.loop is None:
            continue
        for code, label in CODES:
            probs = [p for p in mr.problems if p[0] == code]
            run.ob(rule, "%s:%s" % (name, label), not probs, f, probs[0][1] if probs else (mr.loop or f).get("l", f["line"]) if isinstance(mr.loop, dict) else f["line"],
                   label.replace("-", " ") if not probs else probs[0][2])
        # per case
        bycase = {}
        for p in mr.problems:
            if p[0] in ("consume", "fallthrough", "raw"):
                bycase.setdefault(p[1], []).append(p)
        for row in mr.rows:
            ncase += 1
            probs = bycase.pop(row["line"], [])
            run.ob(rule, "%s:case(%s)" % (name, row["name"] or row["keyval"]), not probs, f, row["line"],
                   "consumes exactly one value and breaks" if not probs else "; ".join(p[2] for p in probs))
        for line, probs in bycase.items():
            run.ob(rule, "%s:case@default-or-unlabelled" % name, False, f, line, "; ".join(p[2] for p in probs))
    run.floor(rule, 200, "reader obligations (19 readers x 6 + cases)")
    if len(readers) < 18:
        run.broken_rule(rule, "only %d map readers found (floor 18)" % len(readers))
    run.info["map_readers"] = len(readers)
    run.info["case_arms"] = ncase
    return analyses


def check_array_readers(run, rule):
    facts = run.facts
    # CdnsDecoder::read_array
    f = facts.fn("CDNS::CdnsDecoder::read_array", rule=rule)
    r = consumption.analyse_map_reader(f, facts, start_name="read_array_start")
    if isinstance(r, consumption.MapReader):
        for line, text in r.unrecognised:
            run.ob(rule, "read_array:unrecognised", None, f, line, text)
    else:
        mr, body = r
        for code, label in CODES[:2] + [CODES[3]]:
            probs = [p for p in mr.problems if p[0] == code]
            run.ob(rule, "read_array:%s" % label, not probs, f, probs[0][1] if probs else f["line"],
                   label.replace("-", " ") if not probs else probs[0][2])
        # callback invoked exactly once per iteration, unconditionally
        cbs = []
        for s in body[1:]:
            for n in ir.walk(s):
                if n.get("k") == "OpCall" and n.get("op") == "()" and path(n["args"][0]) == ("p:%s" % f["params"][0]["n"],):
                    cbs.append((n, s))
        ok = len(cbs) == 1 and unwrap(cbs[0][1]) is cbs[0][0]
        run.ob(rule, "read_array:callback-once", ok, f, cbs[0][0]["l"] if cbs else f["line"],
               "element callback invoked exactly once per element" if ok else "element callback must be invoked exactly once per iteration, unconditionally")
    # IndexListItem::read explicit loop
    g = facts.fn("CDNS::IndexListItem::read", rule=rule)
    r = consumption.analyse_map_reader(g, facts, start_name="read_array_start")
    if isinstance(r, consumption.MapReader):
        for line, text in r.unrecognised:
            run.ob(rule, "IndexListItem::read:unrecognised", None, g, line, text)
    else:
        mr, body = r
        for code, label in CODES[:2] + [CODES[3]]:
            probs = [p for p in mr.problems if p[0] == code]
            run.ob(rule, "IndexListItem::read:%s" % label, not probs, g, probs[0][1] if probs else g["line"],
                   label.replace("-", " ") if not probs else probs[0][2])
        cons = []
        for s in body[1:]:
            cons += [c for c in consumption.consumes_in(s, facts) if not c.kind.startswith("RAW:")]
        ok = len(cons) == 1 and cons[0].kind == "UINT"
        run.ob(rule, "IndexListItem::read:one-element-per-iteration", ok, g, g["line"],
               "one unsigned element read per iteration" if ok else "each iteration must read exactly one unsigned element (found %d)" % len(cons))
    # Timestamp::read positional loop: tabulated per position (0, 1, 2, 3), whatever control structure selects by position
    t = facts.fn("CDNS::Timestamp::read", rule=rule)
    info, rows = consumption.positional_reader(t, facts)
    if info is None:
        ok, why = None, "Timestamp::read: %s" % rows
    else:
        want_rows = {0: [("member", "m_secs", "read_unsigned")], 1: [("member", "m_ticks", "read_unsigned")], 2: [("throw",)], 3: [("throw",)]}
        bad = ["position %d: %s" % (p, rows[p]) for p in range(4) if rows[p] != want_rows[p]]
        ok = info["break_ok"] and info["steps"] == 1 and not bad
        why = "positional array reader handles both length forms, reads one unsigned per position, rejects extra elements" if ok else \
            "Timestamp::read: loop condition %s, break test ok=%s (%s), position advanced %d time(s) per element, %s" % (
                show_f(info["cond"]), info["break_ok"], info["break_why"], info["steps"], "; ".join(bad) or "positions ok")
    run.ob(rule, "Timestamp::read:positional-array", ok, t, t["line"], why)


def check_order_independence(run, rule, analyses):
    facts = run.facts
    n = 0
    for key, mr in analyses.items():
        f = mr.fn
        name = short(f["qn"])
        for r1 in mr.rows:
            for r2 in mr.rows:
                if r1 is r2:
                    continue
                inter = (r1["reads"] - r1["writes"]) & r2["writes"]
                if inter:
                    run.ob(rule, "%s:case(%s)-reads-%s" % (name, r1["name"], sorted(inter)[0]), False, f, r1["line"],
                           "case %s reads member %s which case %s writes: the result depends on member order in the map" % (
                               r1["name"], sorted(inter), r2["name"]))
        n += 1
        run.ob(rule, "%s:cases-independent" % name, True, f, f["line"], "no case reads a member another case writes", nontrivial=len(mr.rows) > 1)
    # time offsets resolved after the loop in CdnsBlockRead::read
    f = facts.fn("CDNS::CdnsBlockRead::read", rule=rule)
    mr = analyses.get(f["key"])
    top = ir.stmts(f["body"])
    if mr is None or mr.loop is None or mr.loop not in top:
        run.ob(rule, "CdnsBlockRead::read:offset-after-loop", None, f, f["line"], "main loop not identified")
    else:
        in_loop = [c for c in ir.calls_in(mr.loop) if callee_qn(c) == "CDNS::Timestamp::add_time_offset"]
        after = [c for s in top[top.index(mr.loop) + 1:] for c in ir.calls_in(s) if callee_qn(c) == "CDNS::Timestamp::add_time_offset"]
        # (that the offsets are resolved at all, and against which reference, is R01.4 / R17.5; reads of the preamble or the
        # parameters from inside a case are reported by the cases-independent obligations above whatever form they take)
        ok = not in_loop
        run.ob(rule, "CdnsBlockRead::read:offset-after-loop", ok, f, (in_loop or after or [f])[0].get("l", f["line"]) if (in_loop or after) else f["line"],
               "no time offset is resolved while the block map is still being read (%d sites after it)" % len(after) if ok else
               "add_time_offset is applied inside the member loop: the result depends on whether the preamble/parameters member came first")
        # default parameter selection (index absent) also after the loop
        pre = [lp for lp, rhs, node in consumption.assignment_targets(top[top.index(mr.loop) + 1:]) if lp == ("this", "m_block_parameters")]
        run.ob(rule, "CdnsBlockRead::read:default-parameters-after-loop", len(pre) == 1, f, f["line"],
               "block parameters default to set 0 after the loop when the preamble names none" if len(pre) == 1 else
               "expected exactly one default assignment of m_block_parameters after the loop")
    run.floor(rule, 18, "readers")


def check_reset(run, rule, analyses):
    n = 0
    for key, mr in analyses.items():
        f = mr.fn
        if f["qn"].endswith("read_blocktables"):
            continue   # helper of CdnsBlockRead::read, which clears first
        n += 1
        run.ob(rule, "%s:reset-first" % short(f["qn"]), mr.reset_first is not None, f, f["line"],
               "starts from %s()" % mr.reset_first if mr.reset_first else
               "read() does not reset the object first: members absent from this encoding keep values of a previous read", nontrivial=False)
    run.floor(rule, 17, "readers")


def check_key_aliasing(run, rule, analyses):
    facts = run.facts
    ri = facts.fn("CDNS::CdnsDecoder::read_integer", rule=rule)
    # does the unsigned arm range-check before converting to int64_t?
    wraps = None
    for n in ir.walk(ri["body"]):
        if n.get("k") == "Return" and n.get("e") is not None:
            e = n["e"]
            u = unwrap(e)
            if isinstance(u, dict) and callee_qn(u) == "CDNS::CdnsDecoder::read_unsigned":
                # implicit conversion unsigned long -> long directly on the call result
                wraps = True
    if wraps is None:
        # a local + comparison + throw
        has_guard = any(x.get("k") == "If" and ir.leaves_function(x.get("then")) and "read_unsigned" not in show(x.get("cond"))
                        for x in ir.walk(ri["body"]))
        wraps = not has_guard
    any_neg = False
    for key, mr in analyses.items():
        if not mr.negative_labels:
            continue
        any_neg = True
        f = mr.fn
        run.ob(rule, "%s:negative-labels-vs-read_integer" % short(f["qn"]), not wraps, f, mr.negative_labels[0][2],
               "read_integer rejects unsigned keys >= 2^63, negative labels cannot be aliased" if not wraps else
               "read_integer() converts an unsigned key >= 2^63 to a negative int64_t; reader has negative case labels %s, so an unknown "
               "positive key (e.g. 2^64-1) is taken for member %s instead of being skipped" % (
                   [l[0] for l in mr.negative_labels], mr.negative_labels[0][1]))
    if not any_neg:
        run.ob(rule, "no-negative-labels", True, ri, ri["line"], "no reader has negative case labels", nontrivial=False)
    run.floor(rule, 1, "negative-label readers")


def check_tables_append(run, rule):
    """Reading a block table keeps every entry at its position: the store used for a decoded entry appends unconditionally.  A
    find-or-insert store (the one the *writer* side uses to deduplicate) drops an entry equal to an earlier one - legal in a
    file - and shifts every later index."""
    facts = run.facts
    f = facts.fn("CDNS::CdnsBlockRead::read_blocktables", rule=rule)
    n = 0

    def appends_unconditionally(g, depth=0):
        env = ir.Env(g["body"])
        for st, gd, loops in ir.guarded_statements(g["body"], env):
            if st.get("k") in ("IfCond", "LoopHead", "SwitchHead"):
                continue
            for c in ir.calls_in(st):
                if callee_name(c) in ("push_back", "emplace_back") and gd == ("T",) and not loops:
                    return True
                cal = c.get("callee") or {}
                if cal.get("inrepo") and cal.get("cls") == g.get("cls") and gd == ("T",) and not loops and depth < 3:
                    for h in facts.fns(cal.get("qn")):
                        if h["sig"] == cal.get("sig") and h.get("targs", "") == g.get("targs", "") and h.get("body") is not None and h["key"] != g["key"]:
                            if appends_unconditionally(h, depth + 1):
                                return True
        return False
    for c in ir.calls_in(f["body"]):
        cal = c.get("callee") or {}
        if c.get("k") != "MCall" or not (cal.get("cls") or "").startswith("CDNS::BlockTable<"):
            continue
        rp = path(c.get("recv"))
        if not (rp and rp[0] == "this" and len(rp) == 2) or cal.get("const") or callee_name(c) in ("clear", "size", "begin", "end"):
            continue
        n += 1
        cands = [h for h in facts.fns(cal.get("qn")) if h["sig"] == cal.get("sig") and h.get("cls") == cal.get("cls") and h.get("body") is not None]
        if not cands:
            run.ob(rule, "read_blocktables:%s.%s" % (rp[1], callee_name(c)), None, f, c.get("l", 0), "body of %s not found" % cal.get("qn"))
            continue
        ok = appends_unconditionally(cands[0])
        run.ob(rule, "read_blocktables:%s.%s" % (rp[1], callee_name(c)), ok, f, c.get("l", 0),
               "every decoded entry is appended" if ok else
               "%s() stores a decoded entry only if the table does not hold an equal one yet: a file whose table repeats a value reads back with "
               "a shorter table, and every index behind the repeated entry resolves to the wrong value" % callee_name(c))
    run.floor(rule, 9, "block tables filled by the reader")


def check(run):
    check_tables_append(run, "R08.7")
    # chunked strings: every chunk is appended (imported from C07)
    from . import C07
    C07.check_string_accumulates(run, "R08.6")
    C07.check_string_bytes_kept(run, "R08.6")
    analyses = check_readers(run, "R08.1")
    check_array_readers(run, "R08.1")
    check_order_independence(run, "R08.2", analyses)
    # imported decoder obligations
    C07.check_skip(run, "R08.3", "R08.3")
    C07.check_skip_bookkeeping(run, "R08.3")    # an unknown member is skipped whole: nested levels leave the work stack
    # the file's block array may be definite or indefinite: read_block ends both where they end (R05.7 imported)
    from . import C05
    C05.check_block_protocol(run, "R08.11")
    from . import C03
    C03.check_invalidation(run, "R08.3", run.facts, only_cls="CDNS::CdnsDecoder", floor=0)
    C07.check_stop_agreement(run, "R08.3")
    run.floors.pop("R08.3", None)
    run.floor("R08.3", 25, "imported decoder obligations")
    # an item means the same in every head width only if read_int assembles the argument of every width correctly: the value
    # RFC 8949 assigns to the bytes (R07.4 imported) with every shift inside its operand's type (R07.7 imported, read_int only)
    C07.check_read_int(run, "R08.10")
    from .. import ranges as _ranges
    ri = run.facts.fn("CDNS::CdnsDecoder::read_int", rule="R08.10")
    seen_ = {}
    for node, ok, txt in _ranges.check_function(ri, run.facts.enums):
        base = "read_int:%s" % ir.show(node)[:50]
        seen_[base] = seen_.get(base, 0) + 1
        run.ob("R08.10", base if seen_[base] == 1 else "%s#%d" % (base, seen_[base]), ok, ri, node.get("l", 0), txt)
    check_reset(run, "R08.4", analyses)
    check_key_aliasing(run, "R08.5", analyses)
