#include "src/cdns.h"
#include <iostream>
#include <memory>
int main(){
  using namespace CDNS;
  auto src = std::make_unique<CdnsBlock>();
  ClassType ct; ct.type = 1; ct.class_ = 1;
  for (int i = 0; i < 100; i++) { ClassType c; c.type = i; c.class_ = 7; src->add_classtype(c); }
  auto i0 = src->add_classtype(ct);
  CdnsBlock copy(*src);
  src->clear();
  src.reset();                       // the source dies
  auto i1 = copy.add_classtype(ct);  // lookup walks KeyRefs that point into the dead source
  ClassType nw; nw.type = 4242; nw.class_ = 1;
  auto i2 = copy.add_classtype(nw);
  std::cout << "index in source " << i0 << ", same value in copy " << i1 << ", new value " << i2 << "\n";
  return (i0 == i1 && i2 == 101) ? 0 : 1;
}
